#!/bin/bash
# usage: tools/sweep.sh <tier> <seed-list> [ids...]  -- runs checks on the unchanged tree, prints one line per run
tier=$1; seeds=$2; shift 2
ids=${@:-C01 C02 C03 C04 C05 C06 C07 C08 C09 C10 C11 C12 C13 C14 C15 C16 C17 C18 C19}
cd "$(dirname "$0")/.."
for id in $ids; do for s in $seeds; do
  out=$(VERIF_SEED=$s timeout 3000 ./check $id $tier 2>&1); rc=$?
  echo "rc=$rc $(echo "$out" | grep '^check ' | tail -1)"
  if [ $rc -ne 0 ]; then echo "$out" | grep -v '^KNOWN' | cut -c1-400 | head -12; fi
done; done
