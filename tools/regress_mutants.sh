#!/bin/bash
# usage: tools/regress_mutants.sh <tier> [mutant-dir-names...]
# Runs every seeded change (or the named ones) through tools/trymutant2.sh against its own property
# (plus the extra properties listed in seeded/<m>/meta.json verif.also_try) and prints one line per mutant.
tier=${1:-quick}; shift
cd /verif
ms="$@"; [ -z "$ms" ] && ms=$(ls seeded)
for m in $ms; do
  id=${m%%-*}
  also=$(python3 -c "import json,sys; print(' '.join(json.load(open('seeded/$m/meta.json')).get('verif',{}).get('also_try',[])))" 2>/dev/null)
  out=$(tools/trymutant2.sh seeded/$m/patch.diff $tier $id $also 2>&1)
  caught=$(echo "$out" | grep '^== ' | awk '$3!="rc=0:"{print $2}' | tr '\n' ' ')
  echo "MUTANT $m tier=$tier caught_by=[${caught% }] $(echo "$out" | grep -m1 'signature=' | cut -c1-160)"
done
