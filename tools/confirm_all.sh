#!/bin/bash
# usage: tools/confirm_all.sh <logfile> [mutants...]   (default: every seeded change whose meta.json lacks verif.confirmed == true)
log=$1; shift
cd /verif
head=$(git -C /repo rev-parse --short HEAD)
ms="$@"
[ -z "$ms" ] && ms=$(python3 - <<'PY'
import json,glob
for d in sorted(glob.glob('/verif/seeded/*')):
    v=json.load(open(d+'/meta.json')).get('verif',{})
    if v.get('confirmed') is not True: print(d.split('/')[-1])
PY
)
for m in $ms; do tools/confirm_mutant.sh ${m%%-*} /verif/seeded/$m $head 2>&1 | grep "^RESULT" >> $log; done
