#!/usr/bin/env python3
"""Fold the output of tools/regress_mutants.sh and tools/confirm_mutant.sh into seeded/<m>/meta.json ("verif" block).

usage: tools/update_seeded_meta.py <regress.log>... [--confirm <confirm.log>...]
Lines understood:
  MUTANT <m> tier=<tier> caught_by=[C.. C..]   signature=<sig> cases=...
  RESULT <prop> <m>: suite_with_change=... demo_with_change_failmarks=N demo_without_change_failmarks=M
Nothing here is used by the checks; it is bookkeeping for DESIGN.md section 8.
"""
import json, os, re, sys

root = os.path.join(os.path.dirname(os.path.abspath(__file__)), '..', 'seeded')
args = sys.argv[1:]
confirm = []
if '--confirm' in args:
    i = args.index('--confirm')
    confirm = args[i + 1:]
    args = args[:i]

def load(m):
    p = os.path.join(root, m, 'meta.json')
    if not os.path.exists(p):
        return None, p
    return json.load(open(p)), p

for f in args:
    for line in open(f):
        mm = re.match(r'MUTANT (\S+) tier=(\S+) caught_by=\[([^\]]*)\]\s*(?:signature=(\S+))?', line)
        if not mm:
            continue
        m, tier, caught, sig = mm.groups()
        d, p = load(m)
        if d is None:
            continue
        v = d.setdefault('verif', {})
        ids = caught.split()
        if ids:
            v['caught_by'] = ', '.join(ids)
            v['tier'] = tier
            if sig:
                v['first_signature'] = sig
        elif v.get('tier') in (None, 'pending', tier):
            v['caught_by'] = 'not caught at ' + tier
            v['tier'] = tier
        v['checks_run'] = ('tools/regress_mutants.sh %s %s  (= tools/trymutant2.sh: scratch worktree of /repo HEAD, git apply patch.diff, '
                           'VERIF_REPO=<worktree> ./check <id> %s for the property and the ids in also_try; /repo itself untouched)') % (tier, m, tier)
        json.dump(d, open(p, 'w'), indent=1)

for f in confirm:
    for line in open(f):
        mm = re.match(r'RESULT (\S+) (\S+): suite_with_change=(\S+)(?: \(last failing: (.*?)\))? demo_with_change_failmarks=(\d+) demo_without_change_failmarks=(\d+)', line)
        if not mm:
            continue
        prop, m, suite, failing, w, wo = mm.groups()
        d, p = load(m)
        if d is None:
            continue
        v = d.setdefault('verif', {})
        how = ('tools/confirm_mutant.sh %s seeded/%s <HEAD>: scratch worktree of /repo HEAD, git apply patch.diff, go build ./... with and without '
               '-tags verif, go test -count=1 ./... (up to 3 full runs; a test failing in all three is re-run on its own with the change applied), '
               'demo tests run with the change (%s fail marks) and after git apply -R (%s fail marks); suite verdict: %s') % (prop, m, w, wo, suite)
        if failing:
            how += '; load-sensitive suite tests seen failing in a full run: ' + ' '.join(sorted(set(re.findall(r'FAIL: (\w+)', failing))))
        v['confirmed_how'] = how
        v['confirmed'] = (int(w) > 0 and int(wo) == 0 and suite != "fail")
        json.dump(d, open(p, 'w'), indent=1)
