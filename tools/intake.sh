#!/bin/bash
# usage: tools/intake.sh <prop> <candidate-dir> [<tier>]
# Stages a sub-agent's candidate (patch.diff, demo_test.go, meta.json) as /tmp/stage/<prop>-mN (N = next free number
# under seeded/), runs the property's check against it in a scratch worktree (tools/trymutant2.sh) and confirms it
# (tools/confirm_mutant.sh on /repo HEAD). Nothing is written under /verif; move the staged directory to seeded/ by hand.
prop=$1; cand=$(readlink -f "$2"); tier=${3:-quick}
cd /verif
mkdir -p /tmp/stage
(
  flock 9
  n=$(ls -d seeded/$prop-m* /tmp/stage/$prop-m* 2>/dev/null | sed 's/.*-m//' | sort -n | tail -1); n=$((n+1)); [ $n -lt 30 ] && n=30
  mkdir /tmp/stage/$prop-m$n; echo $n > /tmp/stage/.last.$$
) 9>/tmp/stage/.lock
n=$(cat /tmp/stage/.last.$$); rm -f /tmp/stage/.last.$$
st=/tmp/stage/$prop-m$n
cp $cand/patch.diff $cand/meta.json $st/; cp $cand/*_test.go $st/
python3 - $st/meta.json <<'PY'
import json,sys
p=sys.argv[1]; d=json.load(open(p))
d.setdefault('title', d.get('summary','')[:200]); d.setdefault('needs_to_manifest', d.get('needs',''))
json.dump(d,open(p,'w'),indent=1)
PY
out=$(tools/trymutant2.sh $st/patch.diff $tier $prop 2>&1)
caught=$(echo "$out" | grep '^== ' | awk '$3!="rc=0:"{print $2}' | tr '\n' ' ')
echo "MUTANT $prop-m$n tier=$tier caught_by=[${caught% }] $(echo "$out" | grep -m1 'signature=' | cut -c1-160)" | tee $st/regress.log
tools/confirm_mutant.sh $prop $st HEAD 2>&1 | grep '^RESULT' | tee $st/confirm.log
