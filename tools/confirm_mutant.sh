#!/bin/bash
# usage: tools/confirm_mutant.sh <prop> <mdir> <base-commit>
# Confirms a candidate seeded change in a scratch worktree: patch applies, builds (with and without -tags verif),
# existing suite passes with it, demo fails with it and passes without it. Prints a one-line verdict and JSON.
prop=$1; mdir=$2; base=${3:-888f35a}
export PATH=/root/go/pkg/mod/golang.org/toolchain@v0.0.1-go1.25.7.linux-amd64/bin:$PATH GOTOOLCHAIN=local GOFLAGS=-mod=mod GOPROXY=off GOSUMDB=off
wt=$(mktemp -d /tmp/confirm.XXXXXX)
git -C /repo worktree add -q --detach $wt $base || exit 9
trap 'git -C /repo worktree remove --force '$wt' 2>/dev/null; rm -rf '$wt EXIT
cd $wt
place=$(python3 - "$mdir" <<'PY'
import json,re,sys,glob,os
mdir=sys.argv[1]
pl=json.load(open(mdir+'/meta.json')).get('demo_placement','')
m=re.search(r'[\w./-]+_test\.go',pl)
if m:
    print(m.group(0))
else:
    src=open(sorted(glob.glob(mdir+'/*_test.go'))[0]).read()
    pkg=re.search(r'^package (\w+)',src,re.M).group(1).replace('_test','')
    d={'header':'.','store':'store','sync':'sync','p2p':'p2p','headertest':'headertest','local':'local'}.get(pkg,pkg)
    print(os.path.join(d,'zz_demo_test.go'))
PY
)
res() { echo "RESULT $prop $(basename $mdir): $*"; }
git apply $mdir/patch.diff || { res "patch-does-not-apply"; exit 1; }
go build ./... && go build -tags verif ./... || { res "build-fails"; exit 1; }
suite=fail
for try in 1 2 3; do
  out=$(go test -count=1 ./... 2>&1); if ! echo "$out" | grep -q '^FAIL\|^--- FAIL'; then suite=pass; break; fi
  fails=$(echo "$out" | grep '^--- FAIL' | sort -u | tr '\n' ' ')
done
if [ $suite = fail ]; then
  # the suite's wall-clock tests flake under machine load: a test that failed in all three full runs counts as
  # passing only if it passes when run on its own (one package, -p 1) with the change still applied
  suite=pass-after-isolated-rerun
  for t in $(echo "$out" | grep '^--- FAIL' | sed 's/^--- FAIL: \([A-Za-z0-9_]*\).*/\1/' | sort -u); do
    ok=no
    for try in 1 2 3 4 5; do
      if go test -p 1 -count=1 -run "^$t\$" ./... >/dev/null 2>&1; then ok=yes; break; fi
    done
    [ $ok = yes ] || { suite=fail; stillfailing="$stillfailing $t"; }
  done
fi
mkdir -p $(dirname $place)
demos=$(ls $mdir/*_test.go 2>/dev/null)
cp $mdir/demo_test.go $place 2>/dev/null || cp $demos $(dirname $place)/
pkg=./$(dirname $place)
names=$(grep -ho '^func Test[A-Za-z0-9_]*' $mdir/*_test.go | sed 's/^func //' | sort -u | tr '\n' '|' | sed 's/|$//')
with=$(go test -count=1 -run "^($names)\$" $pkg 2>&1 | grep -c '^--- FAIL\|^FAIL\|^panic')
git apply -R $mdir/patch.diff
without=$(go test -count=1 -run "^($names)\$" $pkg 2>&1 | grep -c '^--- FAIL\|^FAIL\|^panic')
if [ -n "$stillfailing" ]; then
  # tests that never passed with the change: do they fail on the clean tree (patch reverted above) under the same load too?
  suite=pass-same-failures-on-clean-tree
  for t in $stillfailing; do
    cleanfail=no
    for try in 1 2 3; do
      go test -p 1 -count=1 -run "^$t\$" ./... >/dev/null 2>&1 || { cleanfail=yes; break; }
    done
    [ $cleanfail = yes ] || suite=fail
  done
fi
res "suite_with_change=$suite${fails:+ (last failing: $fails)} demo_with_change_failmarks=$with demo_without_change_failmarks=$without"
