#!/usr/bin/env python3
"""Regenerates the table between <!-- seeded-table --> markers in DESIGN.md from seeded/*/meta.json and tools/seeded_notes.json."""
import json, glob, os, re
root = os.path.join(os.path.dirname(os.path.abspath(__file__)), '..')
notes = json.load(open(os.path.join(root, 'tools', 'seeded_notes.json')))
rows = ['| seeded change | caught by (tier) | first violation signature | what had to be strengthened |', '|---|---|---|---|']
def key(d):
    m = re.match(r'C(\d+)-m(\d+)', os.path.basename(d)); return (int(m.group(1)), int(m.group(2)))
for d in sorted(glob.glob(os.path.join(root, 'seeded', '*')), key=key):
    m = os.path.basename(d)
    meta = json.load(open(os.path.join(d, 'meta.json')))
    v = meta.get('verif', {})
    title = (meta.get('title') or '').replace('|', '/').strip()
    if len(title) > 110: title = title[:107] + '...'
    sig = (v.get('first_signature') or '').replace('|', '/')
    if len(sig) > 70: sig = sig[:67] + '...'
    rows.append('| %s %s | %s (%s) | `%s` | %s |' % (m, title, v.get('caught_by', '?'), v.get('tier', '?'), sig, notes.get(m, '—')))
p = os.path.join(root, 'DESIGN.md'); s = open(p).read()
a, b = '<!-- seeded-table -->', '<!-- /seeded-table -->'
i, j = s.index(a), s.index(b)
s = s[:i + len(a)] + '\n' + '\n'.join(rows) + '\n' + s[j:]
open(p, 'w').write(s)
print(len(rows) - 2, 'rows')
