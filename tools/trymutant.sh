#!/bin/bash
# usage: tools/trymutant.sh <patch.diff> <tier> <id> [<id>...]   -- applies the patch to /repo, runs checks, always reverts.
patch=$1; tier=$2; shift 2
cd /repo || exit 9
if [ -n "$(git status --porcelain)" ]; then echo "/repo not clean"; exit 9; fi
if ! git apply "$patch"; then echo "PATCH DOES NOT APPLY"; exit 8; fi
trap 'git -C /repo checkout -- . ; git -C /repo clean -fdq' EXIT
cd /verif
for id in "$@"; do
  out=$(./check $id $tier 2>&1); rc=$?
  echo "== $id rc=$rc: $(echo "$out" | grep -c '^VIOLATION') violation lines"
  echo "$out" | grep -E '^(VIOLATION|  signature|BROKEN)' | head -6 | cut -c1-300
done
