#!/bin/bash
# usage: tools/trymutant2.sh <patch.diff> <tier> <id> [<id>...]
# Like trymutant.sh but never touches /repo: applies the patch in a scratch worktree of /repo HEAD and
# points the harness at it (VERIF_REPO), with its own scratch output directory.
patch=$(readlink -f "$1"); tier=$2; shift 2
wt=$(mktemp -d /tmp/mut.XXXXXX); sc=$(mktemp -d /tmp/mutout.XXXXXX)
git -C /repo worktree add -q --detach $wt HEAD || exit 9
trap 'git -C /repo worktree remove --force '$wt' 2>/dev/null; rm -rf '$wt' '$sc EXIT
if ! git -C $wt apply "$patch"; then echo "PATCH DOES NOT APPLY"; exit 8; fi
cd /verif
for id in "$@"; do
  out=$(VERIF_REPO=$wt VERIF_SCRATCH=$sc ./check $id $tier 2>&1); rc=$?
  echo "== $id rc=$rc: $(echo "$out" | grep -c '^VIOLATION') violation lines"
  echo "$out" | grep -E '^(VIOLATION|  signature|BROKEN|check: )' | head -6 | cut -c1-300
done
