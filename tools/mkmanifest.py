#!/usr/bin/env python3
"""Regenerates MANIFEST.json from props.json + tools/manifest_text.json (level text / notes / technique)."""
import json, os, subprocess
ROOT = os.path.dirname(os.path.dirname(os.path.abspath(__file__)))
props = json.load(open(os.path.join(ROOT, "props.json")))
text = json.load(open(os.path.join(ROOT, "tools", "manifest_text.json")))
allids = [json.loads(l)["id"] for l in open(os.path.join(ROOT, "properties.jsonl"))]
hook_commits = text.get("_hook_commits", [])
m = {
    "version": 1,
    "setup_cmd": "./check --setup",
    "hooks": {
        "guard": "verif",
        "enable": "go test -c -tags verif (the harness module under /verif/harness replaces github.com/celestiaorg/go-header with /repo, so /repo's working tree is compiled with the tag on)",
        "baseline_off_cmd": "cd /repo && PATH=/root/go/pkg/mod/golang.org/toolchain@v0.0.1-go1.25.7.linux-amd64/bin:$PATH GOTOOLCHAIN=local GOFLAGS=-mod=mod GOPROXY=off GOSUMDB=off go test -json -vet=off -count=1 -timeout 25m ./...",
        "source_commits": hook_commits,
        "add_only": True,
    },
    "engines": [
        {"name": "check", "path": "check", "serves_properties": sorted(props), "kind_free_text": "python driver: builds the Go monitor binaries (go test -c -tags verif [-race]) against /repo's working tree, runs sharded child processes under a wall-clock watchdog, aggregates case journals into evidence, matches violations against known_findings.json"},
        {"name": "harness", "path": "harness", "serves_properties": sorted(props), "kind_free_text": "Go module: vh (forgeable header type), memds (recording/fault-injecting datastore), simnet (mocknet world with scripted wire peers), sched (yield-point controller), mon (case journal); monitors in props/*; all cases run inside testing/synctest bubbles (virtual time, quiescence detection)"},
    ],
    "checks": [],
    "not_applicable": [],
    "notes": text.get("_notes", ""),
}
for pid in allids:
    if pid in props and pid in text:
        t = text[pid]
        m["checks"].append({
            "property_id": pid,
            "quick_cmd": "./check %s quick" % pid,
            "thorough_cmd": "./check %s thorough" % pid,
            "evidence_file": "evidence/%s.json" % pid,
            "replay_cmd_template": "./check %s --replay {path}" % pid,
            "engine": "check",
            "level_claimed": {"category": props[pid]["level"], "text": t["level_text"], "design_ref": "DESIGN.md §5 " + pid},
            "level_note": t["level_note"],
            "technique": t["technique"],
        })
    else:
        m["not_applicable"].append({"property_id": pid, "reason": text.get("_na", {}).get(pid, "monitor not built yet in this session (planned, see DESIGN.md §5); no claim is made")})
json.dump(m, open(os.path.join(ROOT, "MANIFEST.json"), "w"), indent=1)
print("checks:", len(m["checks"]), "not_applicable:", len(m["not_applicable"]))
