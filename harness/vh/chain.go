package vh

import (
	"bytes"
	"time"
)

// Chain is a canonical chain; Hdrs[i] has height i+1.
type Chain struct {
	ID   string
	Hdrs []*Header
	byH  map[string]*Header
}

// NewChain builds n signed, correctly linked headers. times[i] is the timestamp of height i+1.
func NewChain(id string, times []time.Time) *Chain {
	c := &Chain{ID: id, byH: make(map[string]*Header, len(times))}
	var prev []byte
	for i, t := range times {
		h := (&Header{Chain: id, H: uint64(i + 1), T: t.UnixNano(), Prev: prev, Nonce: uint64(i + 1), Signed: true}).Seal()
		c.Hdrs = append(c.Hdrs, h)
		c.byH[string(h.hash)] = h
		prev = h.hash
	}
	return c
}

// Regular returns n timestamps spaced by step ending at `last`.
func Regular(last time.Time, n int, step time.Duration) []time.Time {
	ts := make([]time.Time, n)
	for i := range ts {
		ts[i] = last.Add(-time.Duration(n-1-i) * step)
	}
	return ts
}

func (c *Chain) Len() uint64 { return uint64(len(c.Hdrs)) }

// At returns the canonical header at height h (nil if outside).
func (c *Chain) At(h uint64) *Header {
	if h == 0 || h > uint64(len(c.Hdrs)) {
		return nil
	}
	return c.Hdrs[h-1]
}

func (c *Chain) Head() *Header { return c.Hdrs[len(c.Hdrs)-1] }

// Range returns canonical headers [from, to).
func (c *Chain) Range(from, to uint64) []*Header {
	if from == 0 {
		from = 1
	}
	if to > c.Len()+1 {
		to = c.Len() + 1
	}
	if from >= to {
		return nil
	}
	return append([]*Header(nil), c.Hdrs[from-1:to-1]...)
}

// Canonical reports whether h is (by hash) a header of this chain.
func (c *Chain) Canonical(h *Header) bool {
	if h == nil {
		return false
	}
	x, ok := c.byH[string(h.hash)]
	return ok && x.H == h.H
}

// ByHash looks a canonical header up.
func (c *Chain) ByHash(hash []byte) *Header { return c.byH[string(hash)] }

// Extend appends k more canonical headers with the given timestamps.
func (c *Chain) Extend(times []time.Time) {
	prev := c.Head().hash
	base := len(c.Hdrs)
	for i, t := range times {
		h := (&Header{Chain: c.ID, H: uint64(base + i + 1), T: t.UnixNano(), Prev: prev, Nonce: uint64(base + i + 1), Signed: true}).Seal()
		c.Hdrs = append(c.Hdrs, h)
		c.byH[string(h.hash)] = h
		prev = h.hash
	}
}

// Variant kinds of adversarial headers derived from a canonical one.
const (
	VForgedRightLink = "forged-rightlink" // unsigned, other nonce, correct Prev
	VForgedWrongLink = "forged-wronglink" // unsigned, wrong Prev
	VInvalidFields   = "invalid-fields"   // signed, Validate fails
	VWrongChain      = "wrong-chain"      // signed, other chain id
	VNoChain         = "no-chain"         // signed, empty chain id
	VFarFuture       = "far-future"       // signed, time far ahead of now
	VBeforeGenesis   = "before-genesis"   // signed, time before any chain time
	VSignedRelink    = "signed-relink"    // signed, wrong Prev (fails only adjacently)
	VSignedFork      = "signed-fork"      // signed, correct Prev, other nonce (equivocation)
	VTimewarp        = "timewarp"         // signed, correct Prev, time 1ns before its predecessor's time
	VVerifyPanic     = "verify-panic"     // signed, valid encoding and fields, but the type-level Verify panics on it
)

// Variant derives an adversarial header from the canonical header at height h.
func (c *Chain) Variant(kind string, h uint64, salt uint64) *Header {
	base := c.At(h)
	v := &Header{Chain: base.Chain, H: base.H, T: base.T, Prev: append([]byte(nil), base.Prev...), Nonce: base.Nonce ^ (0xBAD0000 + salt), Signed: true}
	switch kind {
	case VForgedRightLink:
		v.Signed = false
	case VForgedWrongLink:
		v.Signed = false
		v.Prev = bytes.Repeat([]byte{0xEE}, 32)
	case VInvalidFields:
		v.Invalid = true
	case VWrongChain:
		v.Chain = base.Chain + "-other"
	case VNoChain:
		v.Chain = ""
	case VFarFuture:
		v.T = base.T + int64(1_000_000*time.Hour)
	case VBeforeGenesis:
		v.T = c.Hdrs[0].T - int64(time.Hour)
	case VSignedRelink:
		v.Prev = bytes.Repeat([]byte{0xEE}, 32)
	case VSignedFork:
	case VVerifyPanic:
		v.Nonce = VerifyPanicNonce
	case VTimewarp:
		if p := c.At(h - 1); p != nil {
			v.T = p.T - 1
		}
	default:
		panic("vh: unknown variant " + kind)
	}
	return v.Seal()
}
