// Package vh provides a header type that can actually be wrong: real previous-hash links, a
// forgeable "signature", a bounded trust range for non-adjacent verification and a strict codec.
package vh

import (
	"bytes"
	"crypto/sha256"
	"encoding/binary"
	"errors"
	"fmt"
	"sync/atomic"
	"time"

	header "github.com/celestiaorg/go-header"
)

// trustRange is the maximal height distance over which non-adjacent type-level verification
// succeeds. 0 means unlimited. Process-global: cases run sequentially in one process.
var trustRange atomic.Uint64

// SetTrustRange sets the world's trust range (0 = unlimited).
func SetTrustRange(r uint64) { trustRange.Store(r) }

// TrustRange reports the current trust range.
func TrustRange() uint64 { return trustRange.Load() }

var (
	ErrUnsigned    = errors.New("vh: bad signature")
	ErrBadLink     = errors.New("vh: previous hash mismatch")
	ErrBeyondTrust = errors.New("vh: beyond trust range")
	ErrInvalid     = errors.New("vh: invalid fields")
	ErrDecode      = errors.New("vh: malformed encoding")
)

// PanicMarker makes UnmarshalBinary panic on purpose when the payload starts with it.
var PanicMarker = []byte("VHPANIC!")

var magic = []byte("VH01")

// Header is immutable after construction (Seal) or decoding.
type Header struct {
	Chain   string
	H       uint64
	T       int64 // unix nanoseconds
	Prev    []byte
	Nonce   uint64
	Signed  bool
	Invalid bool

	// VerifyScript, when set on the *trusted* header, replaces the type-level check. Not serialised.
	VerifyScript func(untrusted *Header) error

	hash header.Hash
	raw  []byte
}

var _ header.Header[*Header] = (*Header)(nil)

// Seal computes the encoding and hash. Must be called once all fields are final.
func (h *Header) Seal() *Header {
	var b bytes.Buffer
	b.Write(magic)
	var u16 [2]byte
	var u64 [8]byte
	binary.BigEndian.PutUint16(u16[:], uint16(len(h.Chain)))
	b.Write(u16[:])
	b.WriteString(h.Chain)
	binary.BigEndian.PutUint64(u64[:], h.H)
	b.Write(u64[:])
	binary.BigEndian.PutUint64(u64[:], uint64(h.T))
	b.Write(u64[:])
	binary.BigEndian.PutUint16(u16[:], uint16(len(h.Prev)))
	b.Write(u16[:])
	b.Write(h.Prev)
	binary.BigEndian.PutUint64(u64[:], h.Nonce)
	b.Write(u64[:])
	var flags byte
	if h.Signed {
		flags |= 1
	}
	if h.Invalid {
		flags |= 2
	}
	b.WriteByte(flags)
	h.raw = b.Bytes()
	sum := sha256.Sum256(h.raw)
	h.hash = sum[:]
	return h
}

func (h *Header) New() *Header { return &Header{} }
func (h *Header) IsZero() bool { return h == nil }
func (h *Header) ChainID() string {
	return h.Chain
}
func (h *Header) Hash() header.Hash       { return h.hash }
func (h *Header) Height() uint64          { return h.H }
func (h *Header) LastHeader() header.Hash { return h.Prev }
func (h *Header) Time() time.Time         { return time.Unix(0, h.T).UTC() }

// Verify is the type-level check.
func (h *Header) Verify(u *Header) error {
	if h.VerifyScript != nil {
		return h.VerifyScript(u)
	}
	return TypeVerify(h, u)
}

// softType makes the type-level check report its rejections as *VerifyError with SoftFailure set,
// also for adjacent headers (a header type is allowed to do so).
var softType atomic.Bool

// SetSoftType switches the soft-reporting mode of the type-level check.
func SetSoftType(b bool) { softType.Store(b) }

// TypeVerify is the reference type-level rule (also used by oracles).
func TypeVerify(t, u *Header) error {
	err := typeVerify(t, u)
	if err != nil && softType.Load() {
		return &header.VerifyError{Reason: err, SoftFailure: true}
	}
	return err
}

// VerifyPanicNonce marks a header that decodes and validates but makes the type-level Verify panic
// (peer-supplied data a sloppy header type chokes on).
const VerifyPanicNonce = 0xDEADBEEFDEADBEEF

func typeVerify(t, u *Header) error {
	if u.Nonce == VerifyPanicNonce {
		panic("vh: verify panic marker")
	}
	if !u.Signed {
		return ErrUnsigned
	}
	if u.H == t.H+1 {
		if !bytes.Equal(u.Prev, t.hash) {
			return ErrBadLink
		}
		return nil
	}
	if r := trustRange.Load(); r != 0 && u.H > t.H && u.H-t.H > r {
		return ErrBeyondTrust
	}
	return nil
}

func (h *Header) Validate() error {
	if h.Invalid {
		return ErrInvalid
	}
	if h.H == 0 {
		return fmt.Errorf("%w: zero height", ErrInvalid)
	}
	// an empty chain id is NOT a Validate failure of this type: whether a header of no chain may pass is for the
	// library's own chain-id checks to decide (Verify, the Exchange's validateChainID)
	return nil
}

func (h *Header) MarshalBinary() ([]byte, error) {
	if h.raw == nil {
		return nil, errors.New("vh: unsealed header")
	}
	out := make([]byte, len(h.raw))
	copy(out, h.raw)
	return out, nil
}

func (h *Header) UnmarshalBinary(data []byte) error {
	if bytes.HasPrefix(data, PanicMarker) {
		panic("vh: decode panic marker")
	}
	d, err := Decode(data)
	if err != nil {
		return err
	}
	*h = *d
	return nil
}

// Decode strictly parses an encoded header.
func Decode(data []byte) (*Header, error) {
	r := data
	take := func(n int) ([]byte, bool) {
		if len(r) < n {
			return nil, false
		}
		b := r[:n]
		r = r[n:]
		return b, true
	}
	m, ok := take(4)
	if !ok || !bytes.Equal(m, magic) {
		return nil, ErrDecode
	}
	b, ok := take(2)
	if !ok {
		return nil, ErrDecode
	}
	cl := int(binary.BigEndian.Uint16(b))
	cb, ok := take(cl)
	if !ok {
		return nil, ErrDecode
	}
	h := &Header{Chain: string(cb)}
	if b, ok = take(8); !ok {
		return nil, ErrDecode
	}
	h.H = binary.BigEndian.Uint64(b)
	if b, ok = take(8); !ok {
		return nil, ErrDecode
	}
	h.T = int64(binary.BigEndian.Uint64(b))
	if b, ok = take(2); !ok {
		return nil, ErrDecode
	}
	pl := int(binary.BigEndian.Uint16(b))
	pb, ok := take(pl)
	if !ok {
		return nil, ErrDecode
	}
	if pl > 0 {
		h.Prev = append([]byte(nil), pb...)
	}
	if b, ok = take(8); !ok {
		return nil, ErrDecode
	}
	h.Nonce = binary.BigEndian.Uint64(b)
	if b, ok = take(1); !ok {
		return nil, ErrDecode
	}
	if b[0]&^3 != 0 {
		return nil, ErrDecode
	}
	h.Signed = b[0]&1 != 0
	h.Invalid = b[0]&2 != 0
	if len(r) != 0 {
		return nil, ErrDecode
	}
	h.Seal()
	if !bytes.Equal(h.raw, data) {
		return nil, ErrDecode
	}
	return h, nil
}

// Raw returns the encoding without copying (read-only).
func (h *Header) Raw() []byte { return h.raw }

func (h *Header) String() string {
	if h == nil {
		return "<zero>"
	}
	s := fmt.Sprintf("%s#%d@%d/%x", h.Chain, h.H, h.T, []byte(h.hash[:4]))
	if !h.Signed {
		s += "!unsigned"
	}
	if h.Invalid {
		s += "!invalid"
	}
	return s
}
