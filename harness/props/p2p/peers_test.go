//go:build verif

package p2pprops

import (
	"bytes"
	"context"
	"testing/synctest"
	"time"

	"github.com/celestiaorg/go-header/p2p"
	p2p_pb "github.com/celestiaorg/go-header/p2p/pb"

	"verifharness/mon"
	"verifharness/simnet"
	"verifharness/vh"
)

// Catalogue of scripted peer behaviours (what a Byzantine or faulty peer does with one request).
const (
	bHonest      = "honest"
	bNotFound    = "notfound"
	bEmpty       = "empty"        // closes without any frame
	bHang        = "hang"         // never answers
	bReset       = "reset"        // resets the stream
	bSlow        = "slow"         // honest, but after the given delay
	bPrefix      = "prefix"       // only the first k headers, then closes
	bShifted     = "shifted"      // valid canonical headers starting at origin+shift
	bDuplicate   = "duplicate"    // the chunk before the requested one
	bReordered   = "reordered"    // the requested headers in reverse order
	bForged      = "forged"       // an unsigned forgery at position k
	bForgedFirst = "forged-first" // an unsigned forgery as the first header
	bWrongChain  = "wrong-chain"  // first header from another chain id
	bNoChain     = "no-chain"     // first header with an empty chain id
	bInvalid     = "invalid"      // first header fails Validate
	bStatus0     = "status-0"     // unknown status code 0 with a valid body
	bStatus7     = "status-7"     // unknown status code 7
	bStatusNeg   = "status-neg"   // negative status code
	bTruncated   = "truncated"    // a frame cut in the middle
	bOversized   = "oversized"    // a length prefix announcing 2^40 bytes
	bGarbage     = "garbage"      // OK frame whose body is garbage
	bPanic       = "decode-panic" // OK frame whose body makes the decoder panic
	bExtra       = "extra"        // more OK frames than requested
	bOtherHash   = "other-hash"   // single-header requests: another (valid, canonical) header
	bNoClose     = "noclose"      // valid frames but the stream is left open
	bGap         = "gap"          // valid headers with one height missing in the middle
	bVerifyPanic = "verify-panic" // a header at position k that decodes and validates but makes the type's Verify panic
)

// behaviour is one peer's reaction, optionally limited to its first N requests (then honest).
type behaviour struct {
	Kind    string `json:"kind"`
	K       int    `json:"k,omitempty"`        // position / prefix length / shift
	DelayMs int    `json:"delay_ms,omitempty"` // answer delay (virtual)
	First   int    `json:"first,omitempty"`    // >0: only the first N requests misbehave, later ones are honest
	Avail   int    `json:"avail,omitempty"`    // >0: the peer only has heights 1..Avail (answers NOT_FOUND / prefixes beyond)
}

func okFrames(hs []*vh.Header) []*p2p_pb.HeaderResponse {
	out := make([]*p2p_pb.HeaderResponse, 0, len(hs))
	for _, h := range hs {
		out = append(out, simnet.OK(h.Raw()))
	}
	return out
}

// respond computes the reply of a peer with behaviour b to request r over the canonical chain.
func respond(chain *vh.Chain, b behaviour, r simnet.Request) simnet.Reply {
	delay := time.Duration(b.DelayMs) * time.Millisecond
	kind := b.Kind
	if b.First > 0 && r.Seq >= b.First {
		kind = bHonest
	}
	// what an honest peer would send
	var honest []*vh.Header
	switch {
	case r.IsHash:
		if h := chain.ByHash(r.Hash); h != nil {
			honest = []*vh.Header{h}
		}
	case r.Origin == 0:
		honest = []*vh.Header{chain.Head()}
		if b.Avail > 0 {
			honest = []*vh.Header{chain.At(uint64(b.Avail))}
		}
	default:
		top := chain.Len()
		if b.Avail > 0 {
			top = uint64(b.Avail)
		}
		honest = chain.Range(r.Origin, min(r.Origin+r.Amount, top+1))
	}
	rep := simnet.Reply{Delay: delay}
	if len(honest) == 0 && kind != bHang && kind != bReset && kind != bEmpty {
		rep.Responses = []*p2p_pb.HeaderResponse{simnet.NotFound()}
		return rep
	}
	k := b.K
	switch kind {
	case bHonest, bSlow:
		rep.Responses = okFrames(honest)
	case bNotFound:
		rep.Responses = []*p2p_pb.HeaderResponse{simnet.NotFound()}
	case bEmpty:
	case bHang:
		rep.Hang = true
	case bReset:
		rep.Reset = true
	case bPrefix:
		rep.Responses = okFrames(honest[:max(1, min(k, len(honest)))])
	case bShifted:
		sh := uint64(max(k, 1))
		rep.Responses = okFrames(chain.Range(r.Origin+sh, r.Origin+sh+uint64(len(honest))))
	case bDuplicate:
		lo := uint64(1)
		if r.Origin > uint64(len(honest)) {
			lo = r.Origin - uint64(len(honest))
		}
		rep.Responses = okFrames(chain.Range(lo, lo+uint64(len(honest))))
	case bReordered:
		rev := append([]*vh.Header(nil), honest...)
		for i, j := 0, len(rev)-1; i < j; i, j = i+1, j-1 {
			rev[i], rev[j] = rev[j], rev[i]
		}
		rep.Responses = okFrames(rev)
	case bForged, bForgedFirst:
		pos := min(max(k, 0), len(honest)-1)
		if kind == bForgedFirst {
			pos = 0
		}
		hs := append([]*vh.Header(nil), honest...)
		hs[pos] = chain.Variant(vh.VForgedRightLink, hs[pos].Height(), uint64(r.Seq))
		rep.Responses = okFrames(hs)
	case bVerifyPanic:
		pos := min(max(k, 0), len(honest)-1)
		hs := append([]*vh.Header(nil), honest...)
		hs[pos] = chain.Variant(vh.VVerifyPanic, hs[pos].Height(), 0)
		rep.Responses = okFrames(hs)
	case bWrongChain:
		hs := append([]*vh.Header(nil), honest...)
		hs[0] = chain.Variant(vh.VWrongChain, hs[0].Height(), 1)
		rep.Responses = okFrames(hs)
	case bNoChain:
		hs := append([]*vh.Header(nil), honest...)
		hs[0] = chain.Variant(vh.VNoChain, hs[0].Height(), 1)
		rep.Responses = okFrames(hs)
	case bInvalid:
		hs := append([]*vh.Header(nil), honest...)
		hs[0] = chain.Variant(vh.VInvalidFields, hs[0].Height(), 1)
		rep.Responses = okFrames(hs)
	case bStatus0:
		rep.Responses = []*p2p_pb.HeaderResponse{simnet.Status(0, honest[0].Raw())}
	case bStatus7:
		rep.Responses = []*p2p_pb.HeaderResponse{simnet.Status(7, honest[0].Raw())}
	case bStatusNeg:
		rep.Responses = []*p2p_pb.HeaderResponse{simnet.Status(-1-int32(k), honest[0].Raw())}
	case bTruncated:
		full, _ := simnet.OK(honest[0].Raw()).Marshal()
		fr := simnet.Frame(full)
		rep.Raw = fr[:len(fr)/2]
	case bOversized:
		rep.Raw = simnet.LenPrefix(1 << 40)
	case bGarbage:
		rep.Responses = []*p2p_pb.HeaderResponse{simnet.OK(bytes.Repeat([]byte{0x5A}, 40))}
	case bPanic:
		rep.Responses = []*p2p_pb.HeaderResponse{simnet.OK(append(append([]byte(nil), vh.PanicMarker...), 1, 2, 3))}
	case bExtra:
		rep.Responses = okFrames(chain.Range(honest[0].Height(), honest[0].Height()+uint64(len(honest))+3))
	case bOtherHash:
		o := chain.At(honest[0].Height() + 1)
		if o == nil {
			o = chain.At(honest[0].Height() - 1)
		}
		rep.Responses = okFrames([]*vh.Header{o})
	case bNoClose:
		rep.Responses = okFrames(honest[:max(1, len(honest)-1)])
		rep.NoClose = true
	case bGap:
		if len(honest) >= 3 {
			pos := min(max(k, 1), len(honest)-2)
			hs := append(append([]*vh.Header(nil), honest[:pos]...), honest[pos+1:]...)
			rep.Responses = okFrames(hs)
		} else {
			rep.Responses = okFrames(honest)
		}
	default:
		panic("unknown behaviour " + kind)
	}
	return rep
}

// clientWorld is one Exchange client (host 0) facing n scripted peers (hosts 1..n).
type clientWorld struct {
	c     *mon.Case
	w     *simnet.World
	chain *vh.Chain
	peers []*simnet.Peer
	ex    *p2p.Exchange[H]
}

func newClientWorld(c *mon.Case, chain *vh.Chain, behaviours []behaviour, trusted []int, opts ...p2p.Option[p2p.ClientParameters]) *clientWorld {
	w, err := simnet.New(len(behaviours)+1, time.Millisecond)
	if err != nil {
		c.T.Fatalf("simnet: %v", err)
	}
	cw := &clientWorld{c: c, w: w, chain: chain}
	for i, b := range behaviours {
		cw.peers = append(cw.peers, w.ScriptPeer(i+1, func(r simnet.Request) simnet.Reply { return respond(chain, b, r) }))
	}
	for i := range behaviours {
		if err := w.Connect(0, i+1); err != nil {
			c.T.Fatalf("connect: %v", err)
		}
	}
	cw.ex = newExchange(c, w, 0, trusted, opts...)
	synctest.Wait()
	time.Sleep(50 * time.Millisecond) // let the peer tracker pick the connections up (virtual)
	synctest.Wait()
	return cw
}

func (cw *clientWorld) close() {
	ctx, cancel := context.WithTimeout(context.Background(), time.Minute)
	_ = cw.ex.Stop(ctx)
	cancel()
	cw.w.Close()
	synctest.Wait()
	// let handlers that were still on their way in (1 ms inbound delay) and stream goroutines run out before the
	// bubble's main goroutine returns
	time.Sleep(100 * time.Millisecond)
	synctest.Wait()
}
