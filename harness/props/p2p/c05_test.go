//go:build verif

package p2pprops

import (
	"context"
	"fmt"
	"sort"
	"strings"
	"testing"
	"time"

	"github.com/celestiaorg/go-header/p2p"

	"verifharness/mon"
)

// ---- C05: Exchange.GetRangeByHeight yields a verified contiguous run from from+1 or fails ----

type c05P struct {
	From    uint64      `json:"from"`
	To      int64       `json:"to"` // signed: degenerate requests may be <= from
	Chunk   uint64      `json:"chunk"`
	Peers   []behaviour `json:"peers"`
	CtxMs   int         `json:"ctx_ms"`
	Metrics bool        `json:"metrics,omitempty"` // client WithMetrics
}

const c05ReqTimeout = time.Second

var c05Kinds = []string{bHonest, bNotFound, bEmpty, bHang, bReset, bSlow, bPrefix, bShifted, bDuplicate, bReordered, bForged, bForgedFirst, bWrongChain, bNoChain, bInvalid, bStatus0, bStatus7, bStatusNeg, bTruncated, bOversized, bGarbage, bPanic, bExtra, bNoClose, bGap, bVerifyPanic}

func TestC05(t *testing.T) {
	r := mon.Open(t, "C05")
	mon.Register(r, "session", c05Run)
	// degenerate requests: to - from.Height() in {-5..1}
	for d := int64(-5); d <= 1; d++ {
		for _, from := range []uint64{1, 7, 30} {
			mon.Emit(r, "session", c05P{From: from, To: int64(from) + d, Chunk: 8, Peers: []behaviour{{Kind: bHonest}, {Kind: bHonest}}, CtxMs: 5000}, "session/degenerate")
		}
	}
	// every behaviour: alone, next to an honest peer (only its first answer bad / all answers bad)
	for _, k := range c05Kinds {
		for _, chunk := range []uint64{3, 64} {
			for _, pos := range []int{0, 1, 2} {
				b := behaviour{Kind: k, K: pos}
				if k == bSlow {
					b.DelayMs = 1500
				}
				mon.Emit(r, "session", c05P{From: 10, To: 21, Chunk: chunk, Peers: []behaviour{b}, CtxMs: 4000}, "session")
				b1 := b
				b1.First = 1
				mon.Emit(r, "session", c05P{From: 10, To: 21, Chunk: chunk, Peers: []behaviour{b1, {Kind: bHonest, DelayMs: 20}}, CtxMs: 6000}, "session")
				mon.Emit(r, "session", c05P{From: 10, To: 21, Chunk: chunk, Peers: []behaviour{b, {Kind: bHonest, DelayMs: 20}}, CtxMs: 6000}, "session")
			}
		}
	}
	// the caller's own deadline fires while some sub-requests are answered and others are not (it is shorter than
	// the per-request timeout): the result must still be an error or start at from+1
	for _, k := range []string{bHang, bSlow, bNoClose, bEmpty, bReset, bNotFound} {
		for _, chunk := range []uint64{2, 3, 5} {
			for _, ctxMs := range []int{150, 400} {
				b := behaviour{Kind: k, DelayMs: 0}
				if k == bSlow {
					b.DelayMs = 700
				}
				mon.Emit(r, "session", c05P{From: 10, To: 21, Chunk: chunk, Peers: []behaviour{b, {Kind: bHonest, DelayMs: 20}}, CtxMs: ctxMs}, "session")
				mon.Emit(r, "session", c05P{From: 10, To: 21, Chunk: chunk, Peers: []behaviour{{Kind: bHonest, DelayMs: 30}, b, b}, CtxMs: ctxMs}, "session")
				mon.Emit(r, "session", c05P{From: 10, To: 21, Chunk: chunk, Peers: []behaviour{b, {Kind: bHonest, DelayMs: 100}, {Kind: bSlow, DelayMs: 300}}, CtxMs: ctxMs}, "session")
			}
		}
	}
	rng := r.Rand("c05")
	chunks := []uint64{1, 2, 3, 7, 8, 64}
	for i := 0; i < r.N(250, 19000); i++ {
		chunk := chunks[rng.Intn(len(chunks))]
		ln := 1 + rng.Intn(int(min(3*chunk, 40)))
		from := 2 + uint64(rng.Intn(20))
		p := c05P{From: from, To: int64(from) + int64(ln) + 1, Chunk: chunk, CtxMs: []int{6000, 6000, 6000, 250}[rng.Intn(4)], Metrics: i%5 == 4}
		np := 1 + rng.Intn(5)
		for j := 0; j < np; j++ {
			b := behaviour{Kind: c05Kinds[rng.Intn(len(c05Kinds))], K: rng.Intn(4), DelayMs: []int{0, 5, 40}[rng.Intn(3)]}
			if rng.Intn(3) == 0 {
				b.First = 1 + rng.Intn(2)
			}
			if b.Kind == bSlow {
				b.DelayMs = 1500
			}
			p.Peers = append(p.Peers, b)
		}
		if rng.Intn(2) == 0 {
			p.Peers[rng.Intn(np)] = behaviour{Kind: bHonest, DelayMs: 10}
		}
		mon.Emit(r, "session", p, "session")
	}
	r.Finish()
}

func c05Run(c *mon.Case, p c05P) {
	c.Bubble(func() {
		chain := chainOf(128)
		trusted := []int{1}
		copts := []p2p.Option[p2p.ClientParameters]{p2p.WithRequestTimeout[p2p.ClientParameters](c05ReqTimeout), p2p.WithMaxHeadersPerRangeRequest[p2p.ClientParameters](p.Chunk)}
		if p.Metrics {
			copts = append(copts, p2p.WithMetrics[p2p.ClientParameters]())
		}
		cw := newClientWorld(c, chain, p.Peers, trusted, copts...)
		defer cw.close()
		from := chain.At(p.From)
		ctx, cancel := context.WithTimeout(context.Background(), time.Duration(p.CtxMs)*time.Millisecond)
		t0 := time.Now()
		out, err := cw.ex.GetRangeByHeight(ctx, from, uint64(max(p.To, 0))) // to <= from for the degenerate cases
		elapsed := time.Since(t0)
		cancel()
		c.Count("sessions", 1)
		nreq := 0
		for _, pr := range cw.peers {
			nreq += len(pr.Requests())
		}
		c.Count("peer_requests", nreq)

		var ks []string
		for _, b := range p.Peers {
			k := b.Kind
			if b.First > 0 {
				k += "*" // only the first answers misbehave
			}
			ks = append(ks, k)
		}
		sort.Strings(ks)
		outcome := "error"
		if err == nil {
			outcome = fmt.Sprintf("ok(%s)", map[bool]string{true: "full", false: "prefix"}[int64(len(out)) == p.To-int64(p.From)-1])
		}
		degenerate := p.To <= int64(p.From)+1
		c.Class("chunk=%d len=%s degenerate=%v peers=%s => %s", p.Chunk, bucketI(p.To-int64(p.From)-1), degenerate, strings.Join(ks, "+"), outcome)
		sig := "peers=" + strings.Join(dedupStr(ks), "+")
		if len(sig) > 90 {
			sig = fmt.Sprintf("peers=%d-kinds", len(dedupStr(ks)))
		}

		if degenerate {
			if err == nil {
				c.Violation("degenerate-request-accepted", fmt.Sprintf("GetRangeByHeight(from %d, to %d) returned %d headers and nil error", p.From, p.To, len(out)), nil)
			}
			if elapsed >= time.Duration(p.CtxMs)*time.Millisecond {
				c.Violation("degenerate-request-hangs", fmt.Sprintf("GetRangeByHeight(from %d, to %d) only returned when its context ended (%v)", p.From, p.To, elapsed), nil)
			}
			return
		}
		if err != nil {
			return // an error is always acceptable against Byzantine peers
		}
		maxLen := p.To - int64(p.From) - 1
		if len(out) == 0 {
			c.Violation("empty-result-nil-error/"+sig, "nil error with an empty slice", nil)
			return
		}
		if int64(len(out)) > maxLen {
			c.Violation("result-longer-than-requested/"+sig, fmt.Sprintf("%d headers for (%d, %d)", len(out), p.From, p.To), nil)
		}
		for i, h := range out {
			want := p.From + 1 + uint64(i)
			switch {
			case h == nil:
				c.Violation("nil-header-in-result/"+sig, fmt.Sprintf("out[%d] is nil", i), nil)
				return
			case h.Height() != want:
				c.Violation("result-not-contiguous-from-from+1/"+sig, fmt.Sprintf("out[%d] has height %d, expected %d (request from %d to %d, heights %v)", i, h.Height(), want, p.From, p.To, heightsOf(out)), nil)
				return
			case !chain.Canonical(h):
				c.Violation("unverified-header-in-result/"+sig, fmt.Sprintf("out[%d] = %v does not verify from the trusted header", i, h), nil)
				return
			}
		}
	})
}

func heightsOf(hs []H) []uint64 {
	out := make([]uint64, 0, len(hs))
	for _, h := range hs {
		if h == nil {
			out = append(out, 0)
		} else {
			out = append(out, h.Height())
		}
	}
	return out
}

func dedupStr(s []string) []string {
	var out []string
	for _, x := range s {
		if len(out) == 0 || out[len(out)-1] != x {
			out = append(out, x)
		}
	}
	return out
}

func bucketI(x int64) string {
	switch {
	case x <= 0:
		return "<=0"
	case x <= 3:
		return fmt.Sprint(x)
	case x <= 8:
		return "4-8"
	case x <= 64:
		return "9-64"
	}
	return ">64"
}
