//go:build verif

package p2pprops

import (
	"bytes"
	"context"
	"crypto/sha256"
	"errors"
	"fmt"
	"sort"
	"strings"
	"sync"
	"testing"
	"testing/synctest"
	"time"

	pubsub "github.com/libp2p/go-libp2p-pubsub"
	pubsub_pb "github.com/libp2p/go-libp2p-pubsub/pb"
	"github.com/libp2p/go-libp2p/core/peer"
	"github.com/libp2p/go-libp2p/core/protocol"

	header "github.com/celestiaorg/go-header"
	"github.com/celestiaorg/go-header/p2p"

	"verifharness/mon"
	"verifharness/simnet"
	"verifharness/vh"
)

// ---- C11: Subscriber delivers/relays a gossip message only if it decodes and verifies ----

type c11Msg struct {
	Payload string `json:"payload"`       // valid | invalid-fields | wrong-chain | garbage | truncated | empty | decode-panic
	Verdict string `json:"verdict"`       // nil | soft | hard | wrapped-soft | wrapped-hard | plain | panic
	Via     string `json:"via,omitempty"` // "" = gossiped by the remote attacker | "local" = Subscriber.Broadcast on the node itself (header payloads only)
}

type c11P struct {
	Msgs     []c11Msg `json:"msgs"`
	Verifier string   `json:"verifier"` // set | late (set after the first message is waiting) | never
	// Restart: the Subscriber is stopped and started again (same object, verifier registered before) before any
	// message is published; the registered verifier must keep deciding
	Restart bool `json:"restart,omitempty"`
	Metrics bool `json:"metrics,omitempty"` // the Subscriber is built WithSubscriberMetrics
}

var (
	c11Payloads = []string{"valid", "invalid-fields", "wrong-chain", "garbage", "truncated", "empty", "decode-panic"}
	c11Verdicts = []string{"nil", "soft", "hard", "wrapped-soft", "wrapped-hard", "plain", "panic", "hard-around-soft", "soft-around-hard"}
)

func TestC11(t *testing.T) {
	r := mon.Open(t, "C11")
	mon.Register(r, "gossip", c11Run)
	// full cross product, a handful of messages per world
	var all []c11Msg
	for _, pl := range c11Payloads {
		for _, v := range c11Verdicts {
			all = append(all, c11Msg{Payload: pl, Verdict: v})
			if pl == "valid" || pl == "invalid-fields" || pl == "wrong-chain" {
				all = append(all, c11Msg{Payload: pl, Verdict: v, Via: "local"})
			}
		}
	}
	for rep := 0; rep < r.N(3, 200); rep++ {
		rng := r.Rand("order", rep)
		ms := append([]c11Msg(nil), all...)
		rng.Shuffle(len(ms), func(i, j int) { ms[i], ms[j] = ms[j], ms[i] })
		for len(ms) > 0 {
			n := min(5, len(ms))
			mon.Emit(r, "gossip", c11P{Msgs: ms[:n:n], Verifier: "set"}, "gossip")
			ms = ms[n:]
		}
	}
	// a Subscriber with metrics switched on decides the same way (first message included)
	for _, first := range []c11Msg{{Payload: "valid", Verdict: "nil"}, {Payload: "valid", Verdict: "soft"}, {Payload: "garbage", Verdict: "nil"}, {Payload: "valid", Verdict: "nil", Via: "local"}} {
		mon.Emit(r, "gossip", c11P{Msgs: []c11Msg{first, {Payload: "valid", Verdict: "nil"}, {Payload: "valid", Verdict: "hard"}, {Payload: "invalid-fields", Verdict: "nil"}}, Verifier: "set", Metrics: true}, "gossip")
	}
	// Stop + Start of the same Subscriber: the verifier registered before keeps deciding
	for rep := 0; rep < r.N(1, 20); rep++ {
		for _, v := range c11Verdicts {
			mon.Emit(r, "gossip", c11P{Msgs: []c11Msg{{Payload: "valid", Verdict: v}, {Payload: "invalid-fields", Verdict: "nil"}, {Payload: "valid", Verdict: "nil"}}, Verifier: "set", Restart: true}, "gossip")
		}
	}
	for _, pl := range c11Payloads {
		for _, v := range []string{"nil", "soft", "hard", "panic"} {
			mon.Emit(r, "gossip", c11P{Msgs: []c11Msg{{Payload: pl, Verdict: v}, {Payload: "valid", Verdict: "nil"}}, Verifier: "late"}, "gossip")
			mon.Emit(r, "gossip", c11P{Msgs: []c11Msg{{Payload: pl, Verdict: v}}, Verifier: "never"}, "gossip")
		}
	}
	r.Finish()
}

var (
	errC11Cause = errors.New("c11: verification failed")
)

func c11Verdict(v string) error {
	switch v {
	case "nil":
		return nil
	case "soft":
		return &header.VerifyError{Reason: errC11Cause, SoftFailure: true}
	case "hard":
		return &header.VerifyError{Reason: errC11Cause}
	case "wrapped-soft":
		return fmt.Errorf("wrapped: %w", &header.VerifyError{Reason: errC11Cause, SoftFailure: true})
	case "wrapped-hard":
		return fmt.Errorf("wrapped: %w", &header.VerifyError{Reason: errC11Cause})
	case "hard-around-soft": // a hard VerifyError whose reason is a soft one: the result itself is hard
		return &header.VerifyError{Reason: &header.VerifyError{Reason: errC11Cause, SoftFailure: true}}
	case "soft-around-hard":
		return &header.VerifyError{Reason: &header.VerifyError{Reason: errC11Cause}, SoftFailure: true}
	case "plain":
		return errC11Cause
	}
	panic("c11: verifier panic")
}

// c11Tracer records terminal validation events on the receiving node.
type c11Tracer struct {
	mu     sync.Mutex
	events map[string][]string // message id -> events
}

func (t *c11Tracer) add(msg *pubsub.Message, ev string) {
	t.mu.Lock()
	t.events[msgID(msg.Message)] = append(t.events[msgID(msg.Message)], ev)
	t.mu.Unlock()
}
func (t *c11Tracer) get(id string) []string {
	t.mu.Lock()
	defer t.mu.Unlock()
	return append([]string(nil), t.events[id]...)
}
func (t *c11Tracer) OnNewOutboundStream(peer.ID, protocol.ID) {}
func (t *c11Tracer) OnClosedOutboundStream(peer.ID)           {}
func (t *c11Tracer) Join(string)                              {}
func (t *c11Tracer) Leave(string)                             {}
func (t *c11Tracer) Graft(peer.ID, string)                    {}
func (t *c11Tracer) Prune(peer.ID, string)                    {}
func (t *c11Tracer) ValidateMessage(msg *pubsub.Message)      { t.add(msg, "validate") }
func (t *c11Tracer) DeliverMessage(msg *pubsub.Message)       { t.add(msg, "deliver") }
func (t *c11Tracer) RejectMessage(msg *pubsub.Message, reason string) {
	t.add(msg, "reject:"+reason)
}
func (t *c11Tracer) DuplicateMessage(msg *pubsub.Message)     { t.add(msg, "duplicate") }
func (t *c11Tracer) ThrottlePeer(peer.ID)                     {}
func (t *c11Tracer) RecvRPC(*pubsub.RPC)                      {}
func (t *c11Tracer) SendRPC(*pubsub.RPC, peer.ID)             {}
func (t *c11Tracer) DropRPC(*pubsub.RPC, peer.ID)             {}
func (t *c11Tracer) UndeliverableMessage(msg *pubsub.Message) { t.add(msg, "undeliverable") }

func msgID(m *pubsub_pb.Message) string {
	s := sha256.Sum256(m.Data)
	return string(s[:])
}

func c11Run(c *mon.Case, p c11P) {
	c.Bubble(func() {
		chain := chainOf(64)
		w, err := simnet.New(3, time.Millisecond) // 0 = attacker A, 1 = subscriber B, 2 = observer C
		if err != nil {
			c.T.Fatalf("simnet: %v", err)
		}
		psctx, pscancel := context.WithCancel(context.Background())
		tracer := &c11Tracer{events: map[string][]string{}}
		mk := func(i int, opts ...pubsub.Option) *pubsub.PubSub {
			opts = append(opts, pubsub.WithMessageIdFn(msgID), pubsub.WithMessageSignaturePolicy(pubsub.StrictNoSign))
			ps, err := pubsub.NewGossipSub(psctx, w.Hosts[i], opts...)
			if err != nil {
				c.T.Fatalf("gossipsub: %v", err)
			}
			return ps
		}
		psA, psB, psC := mk(0), mk(1, pubsub.WithRawTracer(tracer)), mk(2)
		topicID := p2p.PubsubTopicID(simnet.NetworkID)

		subOpts := []p2p.SubscriberOption{p2p.WithSubscriberNetworkID(simnet.NetworkID)}
		if p.Metrics {
			subOpts = append(subOpts, p2p.WithSubscriberMetrics())
		}
		sub, err := p2p.NewSubscriber[H](psB, msgID, subOpts...)
		if err != nil {
			c.T.Fatalf("subscriber: %v", err)
		}
		if err := sub.Start(context.Background()); err != nil {
			c.T.Fatalf("subscriber start: %v", err)
		}
		// the verifier looks its scripted outcome up by header nonce
		var vmu sync.Mutex
		outcomes := map[uint64]string{}
		verifierCalls := map[uint64]int{}
		verifier := func(ctx context.Context, h H) error {
			vmu.Lock()
			o, ok := outcomes[h.Nonce]
			verifierCalls[h.Nonce]++
			vmu.Unlock()
			if !ok {
				return errors.New("c11: unexpected header")
			}
			return c11Verdict(o)
		}
		if p.Verifier == "set" {
			if err := sub.SetVerifier(verifier); err != nil {
				c.T.Fatalf("SetVerifier: %v", err)
			}
		}
		subscription, err := sub.Subscribe()
		if err != nil {
			c.T.Fatalf("subscribe: %v", err)
		}
		topicA, err := psA.Join(topicID)
		if err != nil {
			c.T.Fatalf("join A: %v", err)
		}
		topicC, err := psC.Join(topicID)
		if err != nil {
			c.T.Fatalf("join C: %v", err)
		}
		subC, err := topicC.Subscribe()
		if err != nil {
			c.T.Fatalf("subscribe C: %v", err)
		}
		// A -- B -- C (C hears about the topic only through B)
		_ = w.Connect(0, 1)
		_ = w.Connect(1, 2)
		time.Sleep(3 * time.Second) // heartbeats: mesh formation (virtual)
		synctest.Wait()

		if p.Restart {
			subscription.Cancel()
			if err := sub.Stop(context.Background()); err != nil {
				c.Violation("subscriber-stop-fails", fmt.Sprint(err), nil)
				return
			}
			if err := sub.Start(context.Background()); err != nil {
				c.Violation("subscriber-restart-fails", fmt.Sprint(err), nil)
				return
			}
			if subscription, err = sub.Subscribe(); err != nil {
				c.Violation("subscribe-after-restart-fails", fmt.Sprint(err), nil)
				return
			}
			time.Sleep(3 * time.Second) // the mesh forms again
			synctest.Wait()
			c.Count("subscriber restarts", 1)
		}
		// collectors
		var dmu sync.Mutex
		deliveredB := map[string]H{}
		deliveredC := map[string]bool{}
		var cwg sync.WaitGroup
		cwg.Add(2)
		go func() {
			defer cwg.Done()
			for {
				h, err := subscription.NextHeader(psctx)
				if err != nil {
					return
				}
				dmu.Lock()
				deliveredB[string(h.Hash())] = h
				dmu.Unlock()
			}
		}()
		go func() {
			defer cwg.Done()
			for {
				m, err := subC.Next(psctx)
				if err != nil {
					return
				}
				dmu.Lock()
				deliveredC[msgID(m.Message)] = true
				dmu.Unlock()
			}
		}()

		type sent struct {
			m     c11Msg
			data  []byte
			hdr   H     // nil if the payload is not a header encoding
			local bool  // went through Subscriber.Broadcast
			berr  error // what Broadcast returned
		}
		var sents []sent
		for i, m := range p.Msgs {
			nonce := uint64(1000 + i)
			base := chain.At(uint64(10 + i))
			hd := (&vh.Header{Chain: base.Chain, H: base.H, T: base.T, Prev: base.Prev, Nonce: nonce, Signed: true}).Seal()
			var data []byte
			var hdr H
			switch m.Payload {
			case "valid":
				data, hdr = hd.Raw(), hd
			case "invalid-fields":
				x := (&vh.Header{Chain: base.Chain, H: base.H, T: base.T, Prev: base.Prev, Nonce: nonce, Signed: true, Invalid: true}).Seal()
				data, hdr = x.Raw(), x
			case "wrong-chain":
				x := (&vh.Header{Chain: "other", H: base.H, T: base.T, Prev: base.Prev, Nonce: nonce, Signed: true}).Seal()
				data, hdr = x.Raw(), x
			case "garbage":
				data = bytes.Repeat([]byte{byte(i + 1), 0xA5}, 30)
			case "truncated":
				data = hd.Raw()[:len(hd.Raw())-3]
			case "empty":
				data = []byte{byte(i)} // pubsub does not carry empty payloads reliably; one byte is undecodable too
			case "decode-panic":
				data = append(append([]byte(nil), vh.PanicMarker...), byte(i))
			}
			vmu.Lock()
			outcomes[nonce] = m.Verdict
			vmu.Unlock()
			if m.Via == "local" && hdr != nil && p.Verifier == "set" {
				bctx, bcancel := context.WithTimeout(context.Background(), 5*time.Second)
				berr := sub.Broadcast(bctx, hdr)
				bcancel()
				sents = append(sents, sent{m: m, data: data, hdr: hdr, local: true, berr: berr})
			} else {
				sents = append(sents, sent{m: m, data: data, hdr: hdr})
				if err := topicA.Publish(context.Background(), data); err != nil {
					c.T.Fatalf("publish: %v", err)
				}
			}
			time.Sleep(200 * time.Millisecond)
			synctest.Wait()
			if p.Verifier == "late" && i == 0 {
				// the first message is parked in validation: it must have no terminal event yet
				id := string(func() []byte { s := sha256.Sum256(data); return s[:] }())
				for _, ev := range tracer.get(id) {
					if ev == "deliver" || strings.HasPrefix(ev, "reject") {
						if hdr != nil && hdr.Validate() == nil {
							c.Violation("verdict-before-verifier-set", fmt.Sprintf("message got %q although no verifier was registered yet", ev), nil)
						}
					}
				}
				if err := sub.SetVerifier(verifier); err != nil {
					c.T.Fatalf("SetVerifier: %v", err)
				}
				time.Sleep(200 * time.Millisecond)
				synctest.Wait()
			}
		}
		time.Sleep(2 * time.Second)
		synctest.Wait()
		if p.Verifier == "never" {
			// validation only ends with the pubsub context
			pscancel()
			time.Sleep(time.Second)
			synctest.Wait()
		}

		// ---- oracle ----
		var classes []string
		for _, s := range sents {
			id := string(func() []byte { x := sha256.Sum256(s.data); return x[:] }())
			decodes := s.hdr != nil
			validates := decodes && s.hdr.Validate() == nil
			want := "reject"
			switch {
			case !validates:
				want = "reject"
			case p.Verifier == "never":
				want = "ignore"
			case s.m.Verdict == "nil":
				want = "accept"
			case s.m.Verdict == "soft" || s.m.Verdict == "wrapped-soft" || s.m.Verdict == "soft-around-hard":
				want = "ignore"
			}
			evs := tracer.get(id)
			got := "none"
			terminal := 0
			for _, ev := range evs {
				switch {
				case ev == "deliver":
					got = "accept"
					terminal++
				case ev == "reject:"+pubsub.RejectValidationIgnored:
					got = "ignore"
					terminal++
				case strings.HasPrefix(ev, "reject:"):
					got = "reject"
					terminal++
				}
			}
			c.Count("messages", 1)
			shape := fmt.Sprintf("payload=%s/verifier=%s/%s", s.m.Payload, s.m.Verdict, p.Verifier)
			if s.local {
				// pubsub does not show locally published messages to raw tracers: the verdict is what Publish returned
				shape += "/local-broadcast"
				c.Count("local broadcasts", 1)
				var ve pubsub.ValidationError
				switch {
				case s.berr == nil:
					got, terminal = "accept", 1
				case errors.As(s.berr, &ve) && ve.Reason == pubsub.RejectValidationIgnored:
					got, terminal = "ignore", 1
				case errors.As(s.berr, &ve):
					got, terminal = "reject", 1
				default:
					c.Violation("broadcast-unexpected-error/"+shape, fmt.Sprintf("Broadcast returned %v (%T)", s.berr, s.berr), nil)
					continue
				}
			}
			classes = append(classes, fmt.Sprintf("%s%s:%s=>%s", s.m.Via, s.m.Payload, s.m.Verdict, got))
			if terminal != 1 {
				c.Violation("not-exactly-one-verdict/"+shape, fmt.Sprintf("%d terminal validation events for one message: %v", terminal, evs), nil)
				continue
			}
			if got != want {
				c.Violation(fmt.Sprintf("wrong-verdict/want=%s/got=%s/%s", want, got, shape), fmt.Sprintf("message (%s payload, verifier outcome %s) was %sed, expected %s; events %v", s.m.Payload, s.m.Verdict, got, want, evs), nil)
			}
			dmu.Lock()
			var dB H
			if s.hdr != nil {
				dB = deliveredB[string(s.hdr.Hash())]
			}
			dC := deliveredC[id]
			dmu.Unlock()
			if (dB != nil) != (want == "accept") {
				c.Violation("delivery-disagrees-with-verdict/"+shape, fmt.Sprintf("delivered to the Subscription: %v, expected verdict %s", dB != nil, want), nil)
			}
			if dB != nil && !bytes.Equal(dB.Raw(), s.data) {
				c.Violation("delivered-other-header/"+shape, fmt.Sprintf("Subscription delivered %v for payload of %v", dB, s.hdr), nil)
			}
			if dC != (want == "accept") && p.Verifier != "never" {
				c.Violation("relay-disagrees-with-verdict/"+shape, fmt.Sprintf("relayed to the observer: %v, expected verdict %s", dC, want), nil)
			}
			if validates && p.Verifier != "never" {
				vmu.Lock()
				n := verifierCalls[s.hdr.Nonce]
				vmu.Unlock()
				if n != 1 {
					c.Violation("verifier-call-count/"+shape, fmt.Sprintf("verifier called %d times for one valid message", n), nil)
				}
			}
		}
		sort.Strings(classes)
		c.Class("verifier=%s restart=%v metrics=%v %s", p.Verifier, p.Restart, p.Metrics, strings.Join(classes, " "))

		// teardown
		pscancel()
		cwg.Wait()
		subscription.Cancel()
		_ = sub.Stop(context.Background())
		time.Sleep(time.Second)
		w.Close()
		synctest.Wait()
	})
}
