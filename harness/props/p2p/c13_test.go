//go:build verif

package p2pprops

import (
	"bytes"
	"context"
	"fmt"
	"sort"
	"strings"
	"testing"
	"testing/synctest"
	"time"

	"github.com/celestiaorg/go-header/p2p"

	"verifharness/mon"
)

// ---- C13: Exchange.Get/GetByHeight return only validated, correctly bound headers ----

type c13P struct {
	Op      string      `json:"op"` // get | byheight
	H       uint64      `json:"h"`
	Peers   []behaviour `json:"peers"`
	Metrics bool        `json:"metrics,omitempty"` // client WithMetrics
	// ViaParams: the options are handed over as one ClientParameters value (WithParams)
	ViaParams bool `json:"via_params,omitempty"`
	// PriorRange: a GetRangeByHeight over the same peers runs first (its session may block lying peers)
	PriorRange bool `json:"prior_range,omitempty"`
}

const c13Timeout = 2 * time.Second

// how a behaviour answers a single-header request: valid | lying-valid | invalid | silent
func c13Kind(b behaviour, op string) string {
	switch b.Kind {
	case bHonest, bSlow, bExtra, bPrefix, bNoClose:
		if time.Duration(b.DelayMs)*time.Millisecond >= c13Timeout {
			return "silent"
		}
		if b.Kind == bNoClose {
			return "valid" // the single requested frame arrives, the client does not need the close
		}
		return "valid"
	case bOtherHash, bShifted:
		if time.Duration(b.DelayMs)*time.Millisecond >= c13Timeout {
			return "silent"
		}
		return "lying-valid"
	case bHang:
		return "silent"
	}
	return "invalid"
}

func TestC13(t *testing.T) {
	r := mon.Open(t, "C13")
	mon.Register(r, "request", c13Run)
	single := []string{bHonest, bNotFound, bEmpty, bHang, bReset, bOtherHash, bShifted, bWrongChain, bNoChain, bInvalid, bStatus0, bStatus7, bStatusNeg, bTruncated, bOversized, bGarbage, bPanic, bExtra}
	// every behaviour alone, and every behaviour next to one honest peer that is slower / faster
	for _, op := range []string{"get", "byheight"} {
		for _, k := range single {
			mon.Emit(r, "request", c13P{Op: op, H: 20, Peers: []behaviour{{Kind: k, K: 1}}}, "request")
			mon.Emit(r, "request", c13P{Op: op, H: 20, Peers: []behaviour{{Kind: k, K: 1, DelayMs: 5}, {Kind: bHonest, DelayMs: 300}}}, "request")
			mon.Emit(r, "request", c13P{Op: op, H: 20, Peers: []behaviour{{Kind: k, K: 1, DelayMs: 300}, {Kind: bHonest, DelayMs: 5}}}, "request")
			mon.Emit(r, "request", c13P{Op: op, H: 20, Peers: []behaviour{{Kind: k, K: 2, DelayMs: 10}, {Kind: bHonest, DelayMs: 2500}}}, "request")
		}
	}
	for _, k := range []string{bOtherHash, bHonest, bShifted, bNotFound, bExtra} {
		mon.Emit(r, "request", c13P{Op: "getnil", H: 20, Peers: []behaviour{{Kind: k, K: 1}}}, "request")
		mon.Emit(r, "request", c13P{Op: "getnil", H: 20, Peers: []behaviour{{Kind: k, K: 1, DelayMs: 5}, {Kind: bHonest, DelayMs: 50}}}, "request")
	}
	// the same single-header requests with the options handed over through WithParams, or after a range request
	for _, op := range []string{"get", "byheight"} {
		for _, k := range []string{bHonest, bWrongChain, bNoChain, bGarbage, bInvalid, bNotFound} {
			mon.Emit(r, "request", c13P{Op: op, H: 20, Peers: []behaviour{{Kind: k, K: 1}}, ViaParams: true}, "request")
			mon.Emit(r, "request", c13P{Op: op, H: 20, Peers: []behaviour{{Kind: k, K: 1, DelayMs: 5}, {Kind: bHonest, DelayMs: 100}}, ViaParams: true}, "request")
			mon.Emit(r, "request", c13P{Op: op, H: 20, Peers: []behaviour{{Kind: k, K: 1}}, PriorRange: true}, "request")
			mon.Emit(r, "request", c13P{Op: op, H: 20, Peers: []behaviour{{Kind: k, K: 1, DelayMs: 5}, {Kind: k, K: 0, DelayMs: 9}}, PriorRange: true}, "request")
		}
	}
	rng := r.Rand("c13")
	for i := 0; i < r.N(650, 30000); i++ {
		p := c13P{Op: []string{"get", "byheight"}[rng.Intn(2)], H: 2 + uint64(rng.Intn(40)), Metrics: i%5 == 4}
		for n := 1 + rng.Intn(4); n > 0; n-- {
			b := behaviour{Kind: single[rng.Intn(len(single))], K: rng.Intn(3), DelayMs: []int{0, 3, 20, 150, 900, 2500}[rng.Intn(6)]}
			if rng.Intn(3) == 0 {
				b.Kind = bHonest
			}
			p.Peers = append(p.Peers, b)
		}
		// distinct delays keep the arrival order decidable
		seen := map[int]bool{}
		for j := range p.Peers {
			for seen[p.Peers[j].DelayMs] {
				p.Peers[j].DelayMs += 7
			}
			seen[p.Peers[j].DelayMs] = true
		}
		mon.Emit(r, "request", p, "request")
	}
	r.Finish()
}

func c13Run(c *mon.Case, p c13P) {
	c.Bubble(func() {
		chain := chainOf(64)
		trusted := make([]int, len(p.Peers))
		for i := range trusted {
			trusted[i] = i + 1
		}
		copts := []p2p.Option[p2p.ClientParameters]{p2p.WithRequestTimeout[p2p.ClientParameters](c13Timeout)}
		if p.Metrics {
			copts = append(copts, p2p.WithMetrics[p2p.ClientParameters]())
		}
		kitViaParams = p.ViaParams
		cw := newClientWorld(c, chain, p.Peers, trusted, copts...)
		kitViaParams = false
		defer cw.close()
		if p.PriorRange {
			rctx, rc := context.WithTimeout(context.Background(), 20*time.Second)
			_, _ = cw.ex.GetRangeByHeight(rctx, chain.At(5), 12)
			rc()
			synctest.Wait()
			c.Count("prior_range_requests", 1)
		}
		want := chain.At(p.H)
		ctx, cancel := context.WithTimeout(context.Background(), time.Minute)
		t0 := time.Now()
		var got H
		var err error
		if p.Op == "getnil" {
			// no header has an empty hash: whatever the peers send, this cannot succeed
			got, err = cw.ex.Get(ctx, nil)
			cancel()
			c.Count("requests", 1)
			c.Class("getnil peers=%d => err=%v", len(p.Peers), err != nil)
			if err == nil {
				c.Violation("get-with-nil-hash-returns-a-header", fmt.Sprintf("Get(nil) returned %v with a nil error", got), nil)
			}
			return
		}
		if p.Op == "get" {
			got, err = cw.ex.Get(ctx, want.Hash())
		} else {
			got, err = cw.ex.GetByHeight(ctx, p.H)
		}
		cancel()
		elapsed := time.Since(t0)
		c.Count("requests", 1)

		// reference: order peers by arrival, find the first valid answer
		type ans struct {
			kind  string
			delay int
			b     string
		}
		var as []ans
		for _, b := range p.Peers {
			as = append(as, ans{c13Kind(b, p.Op), b.DelayMs, b.Kind})
		}
		sort.SliceStable(as, func(i, j int) bool { return as[i].delay < as[j].delay })
		firstValid := ""
		for _, a := range as {
			if a.kind == "valid" || a.kind == "lying-valid" {
				firstValid = a.kind
				break
			}
		}
		var ks []string
		for _, b := range p.Peers {
			ks = append(ks, b.Kind)
		}
		sort.Strings(ks)
		outcome := "error"
		if err == nil {
			outcome = "ok"
		}
		if p.ViaParams {
			ks = append(ks, "via-params")
		}
		if p.PriorRange {
			ks = append(ks, "after-range")
		}
		c.Class("%s peers=%s first-valid=%s => %s", p.Op, strings.Join(ks, "+"), firstValid, outcome)
		sig := p.Op + "/first-valid=" + firstValid

		if err == nil {
			if got == nil {
				c.Violation("zero-header-nil-error/"+sig, "returned (zero, nil)", nil)
				return
			}
			if verr := got.Validate(); verr != nil {
				c.Violation("unvalidated-header-returned/"+sig, fmt.Sprintf("%v: %v", got, verr), nil)
			}
			if got.ChainID() != chain.ID {
				c.Violation("foreign-chain-header-returned/"+sig, fmt.Sprint(got), nil)
			}
			if !chain.Canonical(got) {
				c.Violation("header-not-from-any-valid-response/"+sig, fmt.Sprintf("%v was not sent as a valid response by any peer", got), nil)
			}
			if p.Op == "get" && !bytes.Equal(got.Hash(), want.Hash()) {
				c.Violation("get-returned-other-hash/"+sig, fmt.Sprintf("asked %X, got %v", []byte(want.Hash()[:6]), got), nil)
			}
		}
		switch firstValid {
		case "":
			if err == nil {
				c.Violation("success-without-valid-answer/"+sig, fmt.Sprintf("no trusted peer answered validly but %v was returned", got), nil)
			}
		case "valid":
			if err != nil {
				c.Violation("fails-despite-valid-trusted-answer/"+sig, fmt.Sprintf("a trusted peer answered validly (first valid answer in arrival order) but the call failed after %v: %v", elapsed, err), nil)
			}
		case "lying-valid":
			// Get: the hash-mismatch error is the stated outcome when a lying peer wins the race;
			// GetByHeight: height binding is not part of the statement
			if p.Op == "byheight" && err != nil {
				c.Violation("fails-despite-valid-trusted-answer/"+sig, fmt.Sprintf("first valid answer exists but the call failed: %v", err), nil)
			}
		}
		if elapsed > c13Timeout+100*time.Millisecond {
			c.Violation("exceeds-request-timeout/"+sig, fmt.Sprintf("call took %v with RequestTimeout %v", elapsed, c13Timeout), nil)
		}
	})
}
