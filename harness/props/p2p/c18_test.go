//go:build verif

package p2pprops

import (
	"bytes"
	"context"
	"fmt"
	"sort"
	"strings"
	"sync/atomic"
	"testing"
	"testing/synctest"
	"time"

	"github.com/celestiaorg/go-header/p2p"

	"verifharness/mon"
	"verifharness/simnet"
)

// ---- C18: With honest peers the Exchange returns the full range however it is split ----

type c18Peer struct {
	Real    bool   `json:"real"`               // a real ExchangeServer over a real Store (else a scripted honest peer)
	Avail   int    `json:"avail"`              // the peer holds heights 1..Avail (0 = everything)
	Fault   string `json:"fault,omitempty"`    // scripted only: "" | slow-once | reset-once | notfound-once | prefix-once
	DelayMs int    `json:"delay_ms,omitempty"` // scripted only: response delay
	Kick    int    `json:"kick,omitempty"`     // scripted only: on its first request, disconnect peer #Kick (1-based) from the client
}

type c18P struct {
	From  uint64    `json:"from"`
	Len   int       `json:"len"`
	Chunk uint64    `json:"chunk"`
	Peers []c18Peer `json:"peers"`
	// Warm > 0: a preceding range request over heights 2..1+Warm*Chunk gives the peers their scores (bytes/ms), so
	// the order in which the session pops them for the judged request is determined by their delays.
	Warm int `json:"warm,omitempty"`
	// PreKick > 0: peer #PreKick (1-based) is disconnected immediately before the judged call, while the tracker
	// still lists it.
	PreKick int `json:"pre_kick,omitempty"`
	// Restart: the Exchange client ("client"), the real ExchangeServers ("servers") or both ("both") are stopped and
	// started again (same objects) before the judged call
	Restart string `json:"restart,omitempty"`
}

const c18Total = 200

// the real servers of the world being built (cases run one at a time per process)
var c18Servers []*p2p.ExchangeServer[H]

// c18Restart stops and starts again what p.Restart names.
func c18Restart(c *mon.Case, p c18P, ex *p2p.Exchange[H]) bool {
	ctx, cancel := context.WithTimeout(context.Background(), time.Minute)
	defer cancel()
	if p.Restart == "servers" || p.Restart == "both" {
		for _, srv := range c18Servers {
			if err := srv.Stop(ctx); err != nil {
				c.Violation("server-stop-fails", fmt.Sprint(err), nil)
				return false
			}
			if err := srv.Start(ctx); err != nil {
				c.Violation("server-restart-fails", fmt.Sprint(err), nil)
				return false
			}
		}
		c.Count("server_restarts", len(c18Servers))
	}
	if p.Restart == "client" || p.Restart == "both" {
		if err := ex.Stop(ctx); err != nil {
			c.Violation("client-stop-fails", fmt.Sprint(err), nil)
			return false
		}
		if err := ex.Start(ctx); err != nil {
			c.Violation("client-restart-fails", fmt.Sprint(err), nil)
			return false
		}
		c.Count("client_restarts", 1)
	}
	synctest.Wait()
	time.Sleep(50 * time.Millisecond)
	synctest.Wait()
	return true
}

func TestC18(t *testing.T) {
	r := mon.Open(t, "C18")
	mon.Register(r, "range", c18Run)
	mon.Register(r, "single", c18Single)
	rng := r.Rand("c18")
	chunks := []uint64{1, 2, 3, 5, 8, 64}
	faults := []string{"", "", "slow-once", "reset-once", "notfound-once", "prefix-once", "stall-after-prefix-once"}
	// a peer that sends a valid prefix of a chunk and then goes silent (the request times out with part of the data)
	for _, chunk := range []uint64{3, 5, 8} {
		for _, ln := range []int{int(chunk), int(2 * chunk), int(2*chunk) + 1} {
			mon.Emit(r, "range", c18P{From: 9, Len: ln, Chunk: chunk, Peers: []c18Peer{{Fault: "stall-after-prefix-once"}, {DelayMs: 50}}}, "range")
			mon.Emit(r, "range", c18P{From: 9, Len: ln, Chunk: chunk, Peers: []c18Peer{{Fault: "stall-after-prefix-once"}, {Fault: "stall-after-prefix-once", DelayMs: 3}, {Real: true}}}, "range")
		}
	}
	// systematic: every range length 1..3*chunk for small chunks against two fixed peer sets
	for _, chunk := range []uint64{1, 2, 3, 5} {
		for ln := 1; ln <= int(3*chunk); ln++ {
			mon.Emit(r, "range", c18P{From: 20, Len: ln, Chunk: chunk, Peers: []c18Peer{{Real: true}}}, "range")
			mon.Emit(r, "range", c18P{From: 20, Len: ln, Chunk: chunk, Peers: []c18Peer{{Real: true, Avail: 20 + ln/2}, {Avail: 0, DelayMs: 30}, {Real: true, Avail: 10}}}, "range")
		}
	}
	// a peer waiting in the queue gets disconnected while another one answers only a prefix
	for _, chunk := range []uint64{2, 3, 8} {
		mon.Emit(r, "range", c18P{From: 5, Len: int(2 * chunk), Chunk: chunk, Peers: []c18Peer{{Fault: "prefix-once", Kick: 3}, {DelayMs: 200}, {DelayMs: 5}}}, "range")
		mon.Emit(r, "range", c18P{From: 5, Len: int(2 * chunk), Chunk: chunk, Peers: []c18Peer{{Real: true, Avail: 5 + int(chunk) - 1 + 1}, {Fault: "prefix-once", Kick: 4, DelayMs: 3}, {DelayMs: 300}, {DelayMs: 8}}}, "range")
	}
	// components that were stopped and started again keep working
	for _, rs := range []string{"client", "servers", "both"} {
		for _, chunk := range []uint64{2, 8} {
			mon.Emit(r, "range", c18P{From: 6, Len: int(2*chunk) + 1, Chunk: chunk, Restart: rs, Peers: []c18Peer{{Real: true}, {Real: true, Avail: 10}}}, "range")
			mon.Emit(r, "range", c18P{From: 6, Len: int(chunk), Chunk: chunk, Restart: rs, Peers: []c18Peer{{Real: true}, {DelayMs: 40}}}, "range")
		}
		mon.Emit(r, "single", c18P{From: 30, Restart: rs, Peers: []c18Peer{{Real: true}, {Real: true, Avail: 120}}}, "single")
		mon.Emit(r, "single", c18P{From: 30, Restart: rs, Peers: []c18Peer{{Real: true}}}, "single")
	}
	// a tracked peer is already offline when the session is created (every peer is popped: chunks >= peers)
	for _, chunk := range []uint64{1, 2, 4} {
		for k := 1; k <= 3; k++ {
			mon.Emit(r, "range", c18P{From: 7, Len: int(3 * chunk), Chunk: chunk, PreKick: k, Peers: []c18Peer{{DelayMs: 2}, {DelayMs: 9}, {Real: true}}}, "range")
			mon.Emit(r, "range", c18P{From: 7, Len: int(4*chunk) + 1, Chunk: chunk, PreKick: k, Warm: 3, Peers: []c18Peer{{DelayMs: 20}, {DelayMs: 1}, {DelayMs: 6}}}, "range")
		}
	}
	// scores fixed by a warm-up: the best peer holds only a prefix of the single chunk and, while it answers, the
	// second best (idle in the queue) goes offline; only the slowest peer can finish the range
	for _, chunk := range []uint64{4, 8} {
		from := 3*chunk + 5
		mon.Emit(r, "range", c18P{From: from, Len: int(chunk), Chunk: chunk, Warm: 3, Peers: []c18Peer{{Avail: int(from + chunk/2), DelayMs: 1, Kick: 2}, {DelayMs: 20}, {DelayMs: 200}}}, "range")
		mon.Emit(r, "range", c18P{From: from, Len: int(chunk), Chunk: chunk, Warm: 3, Peers: []c18Peer{{DelayMs: 150}, {DelayMs: 20}, {Avail: int(from + 1), DelayMs: 1, Kick: 2}}}, "range")
		mon.Emit(r, "range", c18P{From: from + chunk, Len: int(2 * chunk), Chunk: chunk, Warm: 4, Peers: []c18Peer{{Avail: int(from + chunk + 2), DelayMs: 1, Kick: 3}, {DelayMs: 300}, {DelayMs: 20}, {Avail: int(from + chunk + 1), DelayMs: 5}}}, "range")
	}
	for i := 0; i < r.N(330, 15000); i++ {
		chunk := chunks[rng.Intn(len(chunks))]
		p := c18P{From: 1 + uint64(rng.Intn(60)), Len: 1 + rng.Intn(int(min(3*chunk, 100))), Chunk: chunk}
		np := 1 + rng.Intn(5)
		capable := rng.Intn(np)
		for j := 0; j < np; j++ {
			pe := c18Peer{Real: rng.Intn(2) == 0, DelayMs: []int{0, 4, 25, 120}[rng.Intn(4)]}
			if j != capable {
				if rng.Intn(2) == 0 {
					pe.Avail = 1 + rng.Intn(int(p.From)+p.Len+5)
				}
				if !pe.Real {
					pe.Fault = faults[rng.Intn(len(faults))]
				}
			}
			p.Peers = append(p.Peers, pe)
		}
		if np > 1 && rng.Intn(3) == 0 {
			p.Warm = min(np, int(190/chunk))
		}
		if np > 1 && rng.Intn(4) == 0 {
			other := (capable + 1 + rng.Intn(np-1)) % np
			if rng.Intn(2) == 0 {
				p.PreKick = other + 1
			} else if kicker := rng.Intn(np); kicker != other && !p.Peers[kicker].Real {
				p.Peers[kicker].Kick = other + 1
			}
		}
		mon.Emit(r, "range", p, "range")
	}
	// Head / Get / GetByHeight through the wire against real servers
	for i := 0; i < r.N(40, 600); i++ {
		mon.Emit(r, "single", c18P{From: 1 + uint64(rng.Intn(150)), Peers: []c18Peer{{Real: true}, {Real: true, Avail: 1 + rng.Intn(199)}}[:1+rng.Intn(2)]}, "single")
	}
	r.Finish()
}

// buildHonestWorld sets up real servers and scripted honest peers; returns the client world pieces.
func buildHonestWorld(c *mon.Case, p c18P, mainPhase *atomic.Bool) (*simnet.World, []*simnet.Peer, []*storeEnv, func()) {
	chain := chainOf(c18Total)
	w, err := simnet.New(len(p.Peers)+1, time.Millisecond)
	if err != nil {
		c.T.Fatalf("simnet: %v", err)
	}
	var envs []*storeEnv
	var stops []func()
	c18Servers = nil
	peers := make([]*simnet.Peer, len(p.Peers))
	for i, pe := range p.Peers {
		avail := pe.Avail
		if avail <= 0 || avail > c18Total {
			avail = c18Total
		}
		if pe.Real {
			se := newStoreEnv(c, chain, 1, uint64(avail))
			envs = append(envs, se)
			srv := newServer(c, w, i+1, se.st, p2p.WithRequestTimeout[p2p.ServerParameters](time.Second), p2p.WithReadDeadline[p2p.ServerParameters](time.Second), p2p.WithWriteDeadline[p2p.ServerParameters](time.Second))
			stops = append(stops, func() { _ = srv.Stop(context.Background()); se.stop() })
			c18Servers = append(c18Servers, srv)
			continue
		}
		b := behaviour{Kind: bHonest, DelayMs: pe.DelayMs, Avail: avail}
		fault, kick := pe.Fault, pe.Kick
		var mainSeq atomic.Int32 // requests of the judged call seen by this peer ("once" faults fire on its first)
		peers[i] = w.ScriptPeer(i+1, func(rq simnet.Request) simnet.Reply {
			first := mainPhase.Load() && mainSeq.Add(1) == 1
			if first && kick > 0 && kick <= len(p.Peers) {
				_ = w.Net.DisconnectPeers(w.Hosts[0].ID(), w.Hosts[kick].ID())
				_ = w.Net.UnlinkPeers(w.Hosts[0].ID(), w.Hosts[kick].ID())
			}
			bb := b
			if first {
				switch fault {
				case "slow-once":
					bb.DelayMs = 1500 // beyond the client's request timeout
				case "reset-once":
					bb.Kind = bReset
				case "notfound-once":
					bb.Kind = bNotFound
				case "stall-after-prefix-once":
					bb.Kind = bNoClose // all but the last header, then silence with the stream left open
				case "prefix-once":
					bb.Kind, bb.K = bPrefix, 1
				}
			}
			return respond(chain, bb, rq)
		})
	}
	for i := range p.Peers {
		if err := w.Connect(0, i+1); err != nil {
			c.T.Fatalf("connect: %v", err)
		}
	}
	return w, peers, envs, func() {
		for _, s := range stops {
			s()
		}
		w.Close()
		synctest.Wait()
	}
}

func c18Run(c *mon.Case, p c18P) {
	c.Bubble(func() {
		chain := chainOf(c18Total)
		var mainPhase atomic.Bool
		mainPhase.Store(p.Warm == 0)
		w, _, _, closeAll := buildHonestWorld(c, p, &mainPhase)
		defer closeAll()
		ex := newExchange(c, w, 0, []int{1}, p2p.WithRequestTimeout[p2p.ClientParameters](time.Second), p2p.WithMaxHeadersPerRangeRequest[p2p.ClientParameters](p.Chunk))
		defer func() {
			sctx, sc := context.WithTimeout(context.Background(), time.Minute)
			_ = ex.Stop(sctx)
			sc()
		}()
		synctest.Wait()
		time.Sleep(50 * time.Millisecond)
		synctest.Wait()

		if p.Restart != "" && !c18Restart(c, p, ex) {
			return
		}
		if p.Warm > 0 {
			wctx, wcancel := context.WithTimeout(context.Background(), 2*time.Minute)
			wout, werr := ex.GetRangeByHeight(wctx, chain.At(1), 2+uint64(p.Warm)*p.Chunk)
			wcancel()
			c.Count("warm-up sessions", 1)
			if werr != nil || len(wout) != p.Warm*int(p.Chunk) {
				c.Violation("honest-range-request-fails/warm-up", fmt.Sprintf("warm-up GetRangeByHeight(1, %d): %d headers, %v", 2+uint64(p.Warm)*p.Chunk, len(wout), werr), nil)
				return
			}
			synctest.Wait()
			mainPhase.Store(true)
		}
		if p.PreKick > 0 && p.PreKick <= len(p.Peers) {
			_ = w.Net.DisconnectPeers(w.Hosts[0].ID(), w.Hosts[p.PreKick].ID())
			_ = w.Net.UnlinkPeers(w.Hosts[0].ID(), w.Hosts[p.PreKick].ID())
		}
		to := p.From + uint64(p.Len) + 1
		ctx, cancel := context.WithTimeout(context.Background(), 2*time.Minute)
		t0 := time.Now()
		out, err := ex.GetRangeByHeight(ctx, chain.At(p.From), to)
		elapsed := time.Since(t0)
		cancel()
		c.Count("sessions", 1)

		var ks []string
		for _, pe := range p.Peers {
			k := "scripted"
			if pe.Real {
				k = "real"
			}
			if pe.Avail > 0 && uint64(pe.Avail) < to-1 {
				k += "-partial"
			}
			if pe.Fault != "" {
				k += "-" + pe.Fault
			}
			if pe.Kick > 0 {
				k += "-kicks"
			}
			ks = append(ks, k)
		}
		sort.Strings(ks)
		if p.Warm > 0 {
			ks = append(ks, "warmed")
		}
		if p.PreKick > 0 {
			ks = append(ks, "prekick")
		}
		if p.Restart != "" {
			ks = append(ks, "restarted-"+p.Restart)
		}
		outcome := "ok"
		if err != nil {
			outcome = "error"
		}
		nchunks := (uint64(p.Len) + p.Chunk - 1) / p.Chunk
		c.Class("chunk=%d chunks=%d peers=%s => %s", p.Chunk, min(nchunks, 4), strings.Join(ks, "+"), outcome)
		sig := fmt.Sprintf("chunks=%d/peers=%d", min(nchunks, 4), len(p.Peers))
		if err != nil {
			c.Violation("honest-range-request-fails/"+sig, fmt.Sprintf("GetRangeByHeight(%d, %d) with honest peers (%s), one of them fully capable: %v after %v", p.From, to, strings.Join(ks, "+"), err, elapsed), nil)
			return
		}
		if len(out) != p.Len {
			c.Violation("honest-range-incomplete/"+sig, fmt.Sprintf("got %d headers (heights %v), want %d..%d", len(out), heightsOf(out), p.From+1, to-1), nil)
			return
		}
		for i, h := range out {
			if h == nil || h.Height() != p.From+1+uint64(i) || !chain.Canonical(h) {
				c.Violation("honest-range-wrong-or-unordered/"+sig, fmt.Sprintf("out[%d] = %v; heights %v, want %d..%d ascending", i, h, heightsOf(out), p.From+1, to-1), nil)
				return
			}
		}
	})
}

func c18Single(c *mon.Case, p c18P) {
	c.Bubble(func() {
		chain := chainOf(c18Total)
		var mainPhase atomic.Bool
		mainPhase.Store(true)
		w, _, envs, closeAll := buildHonestWorld(c, p, &mainPhase)
		defer closeAll()
		trusted := make([]int, len(p.Peers))
		for i := range trusted {
			trusted[i] = i + 1
		}
		ex := newExchange(c, w, 0, trusted, p2p.WithRequestTimeout[p2p.ClientParameters](time.Second))
		defer func() {
			sctx, sc := context.WithTimeout(context.Background(), time.Minute)
			_ = ex.Stop(sctx)
			sc()
		}()
		synctest.Wait()
		time.Sleep(50 * time.Millisecond)
		if p.Restart != "" && !c18Restart(c, p, ex) {
			return
		}
		ctx, cancel := context.WithTimeout(context.Background(), time.Minute)
		defer cancel()
		c.Count("single_requests", 3)
		c.Class("single peers=%d restart=%s", len(p.Peers), p.Restart)
		h := p.From
		if p.From > envs[0].head {
			h = envs[0].head
		}
		want := chain.At(h)
		// every server that can answer has the same canonical data: the result must equal it byte for byte
		if got, err := ex.GetByHeight(ctx, h); err != nil || !bytes.Equal(got.Raw(), want.Raw()) {
			c.Violation("single/getbyheight-altered", fmt.Sprintf("GetByHeight(%d): %v, %v", h, got, err), nil)
		}
		if got, err := ex.Get(ctx, want.Hash()); err != nil || !bytes.Equal(got.Raw(), want.Raw()) {
			c.Violation("single/get-altered", fmt.Sprintf("Get(hash of %d): %v, %v", h, got, err), nil)
		}
		got, err := ex.Head(ctx)
		if err != nil {
			c.Violation("single/head-fails", fmt.Sprint(err), nil)
			return
		}
		ok := false
		for _, se := range envs {
			sh, _ := se.st.Head(ctx)
			if sh != nil && bytes.Equal(sh.Raw(), got.Raw()) {
				ok = true
			}
		}
		if !ok {
			c.Violation("single/head-altered", fmt.Sprintf("Head() returned %v, which is no server's head", got), nil)
		}
	})
}
