//go:build verif

package p2pprops

import (
	"context"
	"errors"
	"fmt"
	"sort"
	"strings"
	"sync"
	"testing"
	"time"

	header "github.com/celestiaorg/go-header"
	"github.com/celestiaorg/go-header/p2p"
	p2p_pb "github.com/celestiaorg/go-header/p2p/pb"

	"verifharness/mon"
	"verifharness/simnet"
	"verifharness/vh"
)

// ---- C09: Exchange.Head returns the quorum/highest head and honours the trusted head ----

// answer of one peer to a head request
type c09Ans struct {
	Kind    string `json:"kind"`     // h (canonical header at height H) | forged | invalid | wrong-chain | notfound | garbage | hang | reset
	H       uint64 `json:"h"`        // height of the reported head
	DelayMs int    `json:"delay_ms"` // response delay: defines the arrival order
}

type c09P struct {
	Peers     []c09Ans `json:"peers"`
	Trusted   uint64   `json:"trusted"`    // >0: WithTrustedHead(canonical header at this height)
	R         uint64   `json:"r"`          // trust range (0 unlimited)
	NoTracked bool     `json:"no_tracked"` // trusted mode with an empty peer tracker (falls back to trusted peers)
	CtxMs     int      `json:"ctx_ms"`
	// Parallel > 0 (untrusted mode): after the judged call, this many Head() calls run concurrently; each must ask
	// every trusted peer exactly once and return what the single call returned
	Parallel int `json:"parallel,omitempty"`
}

func quorum(n int) int {
	if n <= 2 {
		return n
	}
	return (2*n + 2) / 3
}

func TestC09(t *testing.T) {
	r := mon.Open(t, "C09")
	mon.Register(r, "head", c09Run)
	kinds := []string{"h", "h", "h", "forged", "invalid", "wrong-chain", "no-chain", "notfound", "garbage", "hang", "reset"}
	rng := r.Rand("c09")
	// all arrival orders for small peer sets
	base := [][]c09Ans{
		{{Kind: "h", H: 30}},
		{{Kind: "h", H: 30}, {Kind: "h", H: 30}},
		{{Kind: "h", H: 30}, {Kind: "h", H: 31}},
		{{Kind: "h", H: 30}, {Kind: "h", H: 30}, {Kind: "h", H: 35}},
		{{Kind: "h", H: 30}, {Kind: "h", H: 31}, {Kind: "h", H: 32}},
		{{Kind: "h", H: 30}, {Kind: "h", H: 30}, {Kind: "hang"}},
		{{Kind: "h", H: 30}, {Kind: "h", H: 31}, {Kind: "hang"}},
		{{Kind: "h", H: 30}, {Kind: "h", H: 30}, {Kind: "h", H: 35}, {Kind: "notfound"}},
		{{Kind: "h", H: 30}, {Kind: "h", H: 30}, {Kind: "h", H: 30}, {Kind: "h", H: 35}},
		{{Kind: "h", H: 30}, {Kind: "h", H: 30}, {Kind: "h", H: 35}, {Kind: "h", H: 35}},
		{{Kind: "notfound"}, {Kind: "garbage"}, {Kind: "reset"}},
		{{Kind: "forged", H: 40}, {Kind: "h", H: 30}, {Kind: "h", H: 30}},
		{{Kind: "forged", H: 40}, {Kind: "forged", H: 40}, {Kind: "h", H: 30}},
		{{Kind: "h", H: 20}, {Kind: "h", H: 20}, {Kind: "h", H: 36}}, // trusted 25: two stale answers
	}
	// five and six asked peers (the two-thirds quorum is 4 of 5, 4 of 6): a sample of arrival orders
	for _, b := range [][]c09Ans{
		{{Kind: "h", H: 30}, {Kind: "h", H: 30}, {Kind: "h", H: 30}, {Kind: "h", H: 35}, {Kind: "h", H: 35}},
		{{Kind: "h", H: 30}, {Kind: "h", H: 30}, {Kind: "h", H: 30}, {Kind: "h", H: 30}, {Kind: "h", H: 35}},
		{{Kind: "h", H: 30}, {Kind: "h", H: 30}, {Kind: "h", H: 30}, {Kind: "h", H: 35}, {Kind: "notfound"}},
		{{Kind: "h", H: 30}, {Kind: "h", H: 30}, {Kind: "h", H: 30}, {Kind: "h", H: 35}, {Kind: "h", H: 36}, {Kind: "h", H: 37}},
	} {
		for o := 0; o < 6; o++ {
			ps := append([]c09Ans(nil), b...)
			for i := range ps {
				ps[i].DelayMs = 5 + 10*((i*(o+1)+o)%len(ps))
			}
			mon.Emit(r, "head", c09P{Peers: ps, CtxMs: 3000}, "head")
		}
	}
	for _, b := range base {
		perm(len(b), func(order []int) {
			ps := append([]c09Ans(nil), b...)
			for i, o := range order {
				ps[i].DelayMs = 5 + 10*o
			}
			for _, tr := range []uint64{0, 25} {
				for _, R := range []uint64{0, 8} {
					if tr == 0 && R != 0 {
						continue
					}
					mon.Emit(r, "head", c09P{Peers: ps, Trusted: tr, R: R, CtxMs: 3000}, "head")
				}
			}
		})
	}
	// trusted head with an empty tracker: the trusted peers are asked and must still be verified
	for _, b := range base[:6] {
		ps := append([]c09Ans(nil), b...)
		for i := range ps {
			ps[i].DelayMs = 5 + 10*i
		}
		mon.Emit(r, "head", c09P{Peers: ps, Trusted: 33, R: 0, NoTracked: true, CtxMs: 3000}, "head")
		mon.Emit(r, "head", c09P{Peers: ps, Trusted: 25, R: 4, NoTracked: true, CtxMs: 3000}, "head")
	}
	for i := 0; i < r.N(900, 58000); i++ {
		n := 1 + rng.Intn(6)
		p := c09P{CtxMs: 3000, Trusted: []uint64{0, 0, 25, 28}[rng.Intn(4)], NoTracked: rng.Intn(8) == 0}
		if p.Trusted > 0 {
			p.R = []uint64{0, 0, 3, 8}[rng.Intn(4)]
		}
		used := map[int]bool{}
		for j := 0; j < n; j++ {
			a := c09Ans{Kind: kinds[rng.Intn(len(kinds))], H: 24 + uint64(rng.Intn(14))}
			if rng.Intn(2) == 0 {
				a.H = 30
			}
			d := 5 + 10*rng.Intn(12)
			for used[d] {
				d += 3
			}
			used[d] = true
			a.DelayMs = d
			p.Peers = append(p.Peers, a)
		}
		mon.Emit(r, "head", p, "head")
	}
	// concurrent callers (the set of asked peers and the result must not depend on other calls in flight)
	for rep := 0; rep < r.N(2, 40); rep++ {
		for _, ps := range [][]c09Ans{
			{{Kind: "h", H: 30, DelayMs: 5}, {Kind: "h", H: 31, DelayMs: 10}, {Kind: "h", H: 32, DelayMs: 15}},
			{{Kind: "h", H: 30, DelayMs: 5}, {Kind: "h", H: 30, DelayMs: 10}, {Kind: "h", H: 35, DelayMs: 2}},
			{{Kind: "h", H: 30, DelayMs: 5}, {Kind: "h", H: 31, DelayMs: 10}, {Kind: "h", H: 32, DelayMs: 15}, {Kind: "notfound", DelayMs: 1}, {Kind: "h", H: 33, DelayMs: 20}},
		} {
			mon.Emit(r, "head", c09P{Peers: ps, CtxMs: 5000, Parallel: 3 + rep%6}, "head")
		}
	}
	r.Finish()
}

func perm(n int, f func([]int)) {
	a := make([]int, n)
	for i := range a {
		a[i] = i
	}
	var rec func(k int)
	rec = func(k int) {
		if k == n {
			f(append([]int(nil), a...))
			return
		}
		for i := k; i < n; i++ {
			a[k], a[i] = a[i], a[k]
			rec(k + 1)
			a[k], a[i] = a[i], a[k]
		}
	}
	rec(0)
}

func c09Run(c *mon.Case, p c09P) {
	c.Bubble(func() {
		vh.SetTrustRange(p.R)
		defer vh.SetTrustRange(0)
		chain := chainOf(64)
		n := len(p.Peers)
		w, err := simnet.New(n+1, time.Millisecond)
		if err != nil {
			c.T.Fatalf("simnet: %v", err)
		}
		defer w.Close()
		hdrOf := func(a c09Ans, i int) *vh.Header {
			switch a.Kind {
			case "h":
				return chain.At(a.H)
			case "forged":
				return chain.Variant(vh.VForgedRightLink, a.H, 3) // same forgery from every forging peer
			case "invalid":
				return chain.Variant(vh.VInvalidFields, a.H, uint64(i))
			case "wrong-chain":
				return chain.Variant(vh.VWrongChain, a.H, uint64(i))
			case "no-chain":
				return chain.Variant(vh.VNoChain, a.H, uint64(i))
			}
			return nil
		}
		peers := make([]*simnet.Peer, n)
		for i, a := range p.Peers {
			peers[i] = w.ScriptPeer(i+1, func(rq simnet.Request) simnet.Reply {
				rep := simnet.Reply{Delay: time.Duration(a.DelayMs) * time.Millisecond}
				switch a.Kind {
				case "notfound":
					rep.Responses = []*p2p_pb.HeaderResponse{simnet.NotFound()}
				case "garbage":
					rep.Responses = []*p2p_pb.HeaderResponse{simnet.OK([]byte("garbage-garbage"))}
				case "hang":
					rep.Hang = true
				case "reset":
					rep.Reset = true
				default:
					rep.Responses = []*p2p_pb.HeaderResponse{simnet.OK(hdrOf(a, i).Raw())}
				}
				return rep
			})
		}
		if !p.NoTracked {
			for i := range p.Peers {
				if err := w.Connect(0, i+1); err != nil {
					c.T.Fatalf("connect: %v", err)
				}
			}
		}
		trusted := make([]int, n)
		for i := range trusted {
			trusted[i] = i + 1
		}
		ex := newExchange(c, w, 0, trusted, p2p.WithRequestTimeout[p2p.ClientParameters](time.Second))
		defer func() {
			sctx, sc := context.WithTimeout(context.Background(), time.Minute)
			_ = ex.Stop(sctx)
			sc()
		}()
		if !p.NoTracked {
			time.Sleep(50 * time.Millisecond)
		}

		var opts []header.HeadOption[H]
		var th *vh.Header
		if p.Trusted > 0 {
			th = chain.At(p.Trusted)
			opts = append(opts, header.WithTrustedHead[H](th))
		}
		ctx, cancel := context.WithTimeout(context.Background(), time.Duration(p.CtxMs)*time.Millisecond)
		t0 := time.Now()
		got, gerr := ex.Head(ctx, opts...)
		elapsed := time.Since(t0)
		cancel()
		c.Count("head_calls", 1)

		// ---- reference over the peers that were actually asked ----
		type arrival struct {
			at   time.Duration
			hdr  *vh.Header // nil: no usable header
			soft error
			hang bool
		}
		var arr []arrival
		asked := 0
		for i, a := range p.Peers {
			reqs := peers[i].Requests()
			if len(reqs) == 0 {
				continue
			}
			asked++
			// relative to the Head() call: one link latency each way plus the scripted response delay
			ar := arrival{at: 2*time.Millisecond + time.Duration(a.DelayMs)*time.Millisecond}
			switch a.Kind {
			case "hang":
				ar.hang = true
			case "h", "forged":
				h := hdrOf(a, i)
				if th != nil {
					verr := header.Verify(th, h)
					var ve *header.VerifyError
					switch {
					case verr == nil:
						ar.hdr = h
					case errors.As(verr, &ve) && ve.SoftFailure:
						ar.hdr, ar.soft = h, verr
					}
				} else {
					ar.hdr = h
				}
			}
			arr = append(arr, ar)
		}
		c.Count("peers_asked", asked)
		sort.SliceStable(arr, func(i, j int) bool { return arr[i].at < arr[j].at })
		q := quorum(asked)
		counts := map[string]int{}
		var quorumHdr *vh.Header
		var quorumAt time.Duration
		anyHang := false
		var highest uint64
		usable := 0
		for _, ar := range arr {
			if ar.hang {
				anyHang = true
				continue
			}
			if ar.hdr == nil {
				continue
			}
			usable++
			highest = max(highest, ar.hdr.Height())
			k := ar.hdr.Hash().String()
			counts[k]++
			if counts[k] >= q && quorumHdr == nil {
				quorumHdr, quorumAt = ar.hdr, ar.at
			}
		}
		expect := "highest"
		switch {
		case asked == 0:
			expect = "nobody-asked"
		case quorumHdr != nil:
			expect = "quorum"
		case anyHang:
			expect = "deadline"
		case usable == 0:
			expect = "notfound"
		}
		var ks []string
		for _, a := range p.Peers {
			ks = append(ks, a.Kind)
		}
		sort.Strings(ks)
		outcome := "err"
		if gerr == nil {
			outcome = "ok"
		} else if got != nil {
			outcome = "soft"
		}
		mode := "untrusted"
		if th != nil {
			mode = fmt.Sprintf("trusted(R=%d,tracked=%v)", p.R, !p.NoTracked)
		}
		c.Class("%s n=%d asked=%d peers=%s expect=%s => %s", mode, n, asked, strings.Join(ks, "+"), expect, outcome)
		sig := mode[:min(7, len(mode))] + "/expect=" + expect

		// ---- generic clauses ----
		if gerr == nil && got == nil {
			c.Violation("zero-header-nil-error/"+sig, "Head returned (zero, nil)", nil)
			return
		}
		if got != nil {
			sent := false
			for i, a := range p.Peers {
				if h := hdrOf(a, i); h != nil && h.Hash().String() == got.Hash().String() && len(peers[i].Requests()) > 0 {
					sent = true
				}
			}
			if !sent {
				c.Violation("header-not-reported-by-any-asked-peer/"+sig, fmt.Sprint(got), nil)
			}
		}
		if th != nil {
			if gerr == nil {
				if verr := header.Verify(th, got); verr != nil {
					c.Violation("trusted-head-not-honoured/nil-error-but-fails-verification/"+sig, fmt.Sprintf("Head(WithTrustedHead(%d)) returned %v with nil error, but Verify says: %v", p.Trusted, got, verr), nil)
				}
			} else if got != nil {
				var ve *header.VerifyError
				verr := header.Verify(th, got)
				var rve *header.VerifyError
				if !errors.As(gerr, &ve) || !ve.SoftFailure || !errors.As(verr, &rve) || !rve.SoftFailure {
					c.Violation("trusted-head-not-honoured/header-with-non-soft-error/"+sig, fmt.Sprintf("returned %v together with %v; reference verification: %v", got, gerr, verr), nil)
				}
			}
		}
		// ---- which header ----
		switch expect {
		case "quorum":
			if got == nil || got.Hash().String() != quorumHdr.Hash().String() {
				c.Violation("quorum-header-not-returned/"+sig, fmt.Sprintf("%d of %d asked peers reported %v (quorum %d, complete at %v) but Head returned %v, %v", q, asked, quorumHdr, q, quorumAt, got, gerr), nil)
			} else if elapsed > quorumAt+20*time.Millisecond {
				c.Violation("quorum-not-returned-promptly/"+sig, fmt.Sprintf("quorum complete at %v, Head returned at %v", quorumAt, elapsed), nil)
			}
		case "highest":
			if got == nil || got.Height() != highest {
				c.Violation("highest-header-not-returned/"+sig, fmt.Sprintf("no quorum among %d asked peers; highest usable answer is height %d but Head returned %v, %v", asked, highest, got, gerr), nil)
			}
		case "notfound":
			if !errors.Is(gerr, header.ErrNotFound) || got != nil {
				c.Violation("no-answers-not-reported-as-notfound/"+sig, fmt.Sprintf("nobody supplied a usable header but Head returned %v, %v", got, gerr), nil)
			}
		case "deadline":
			// a peer hangs and there is no quorum: the ctx error, or the highest answer, are both acceptable
			if gerr == nil && got.Height() != highest {
				c.Violation("highest-header-not-returned/"+sig, fmt.Sprintf("returned %v, highest usable %d", got, highest), nil)
			}
		}
		if p.Parallel > 0 && th == nil && !c.Violated() && (expect == "quorum" || expect == "highest" || expect == "notfound") {
			before := make([]int, n)
			for i := range peers {
				before[i] = len(peers[i].Requests())
			}
			type pres struct {
				h   H
				err error
			}
			out := make([]pres, p.Parallel)
			var pwg sync.WaitGroup
			for k := 0; k < p.Parallel; k++ {
				pwg.Add(1)
				go func() {
					defer pwg.Done()
					pctx, pc := context.WithTimeout(context.Background(), time.Duration(p.CtxMs)*time.Millisecond)
					defer pc()
					h, err := ex.Head(pctx)
					out[k] = pres{h, err}
				}()
			}
			pwg.Wait()
			c.Count("parallel_head_calls", p.Parallel)
			for i := range peers {
				if before[i] == 0 {
					continue
				}
				if d := len(peers[i].Requests()) - before[i]; d != p.Parallel {
					c.Violation("concurrent-calls/peer-not-asked-exactly-once-per-call/"+sig, fmt.Sprintf("%d concurrent Head() calls, but trusted peer %d received %d requests", p.Parallel, i+1, d), nil)
					break
				}
			}
			for k, o := range out {
				same := (o.err == nil) == (gerr == nil) && ((o.h == nil && got == nil) || (o.h != nil && got != nil && o.h.Hash().String() == got.Hash().String()))
				if !same {
					c.Violation("concurrent-calls/result-differs-from-single-call/"+sig, fmt.Sprintf("single call returned %v, %v; concurrent call %d returned %v, %v", got, gerr, k, o.h, o.err), nil)
					break
				}
			}
		}
	})
}
