//go:build verif

package p2pprops

import (
	"context"
	"errors"
	"fmt"
	"io"
	"sync"
	"time"

	"github.com/celestiaorg/go-libp2p-messenger/serde"
	ds "github.com/ipfs/go-datastore"
	dssync "github.com/ipfs/go-datastore/sync"
	"github.com/libp2p/go-libp2p/core/network"
	"github.com/libp2p/go-libp2p/core/peer"
	"github.com/libp2p/go-libp2p/p2p/net/conngater"

	header "github.com/celestiaorg/go-header"
	"github.com/celestiaorg/go-header/p2p"
	p2p_pb "github.com/celestiaorg/go-header/p2p/pb"
	"github.com/celestiaorg/go-header/store"

	"verifharness/memds"
	"verifharness/mon"
	"verifharness/simnet"
	"verifharness/vh"
)

type H = *vh.Header

var bubbleEpoch = time.Date(2000, 1, 1, 0, 0, 0, 0, time.UTC)

var (
	chainMu    sync.Mutex
	chainCache = map[int]*vh.Chain{}
)

// chainOf returns the cached canonical chain of n headers (1s apart, the last one 1s before the epoch).
func chainOf(n int) *vh.Chain {
	chainMu.Lock()
	defer chainMu.Unlock()
	if c, ok := chainCache[n]; ok {
		return c
	}
	c := vh.NewChain(simnet.NetworkID, vh.Regular(bubbleEpoch.Add(-time.Second), n, time.Second))
	chainCache[n] = c
	return c
}

// ---- recording store proxy (ExchangeServer <-> Store boundary) ----

type storeCall struct {
	Op       string
	From, To uint64
	N        int
	Err      bool
}

type recStore struct {
	*store.Store[H]
	mu    sync.Mutex
	calls []storeCall
	// OnHead, if set, runs once right after the first Head() call was answered by the real store (before the
	// caller sees the answer): something happens to the store between two of the server's calls
	OnHead  func()
	OnHasAt func()
}

// OnHasAt works like OnHead for the first HasAt call.
func (r *recStore) HasAt(ctx context.Context, h uint64) bool {
	ok := r.Store.HasAt(ctx, h)
	r.mu.Lock()
	f := r.OnHasAt
	r.OnHasAt = nil
	r.mu.Unlock()
	if f != nil {
		f()
	}
	return ok
}

func (r *recStore) Head(ctx context.Context, opts ...header.HeadOption[H]) (H, error) {
	h, err := r.Store.Head(ctx, opts...)
	r.mu.Lock()
	f := r.OnHead
	r.OnHead = nil
	r.mu.Unlock()
	if f != nil {
		f()
	}
	return h, err
}

func (r *recStore) rec(c storeCall) { r.mu.Lock(); r.calls = append(r.calls, c); r.mu.Unlock() }

func (r *recStore) Calls() []storeCall {
	r.mu.Lock()
	defer r.mu.Unlock()
	return append([]storeCall(nil), r.calls...)
}

func (r *recStore) Reset() { r.mu.Lock(); r.calls = nil; r.mu.Unlock() }

func (r *recStore) GetRange(ctx context.Context, from, to uint64) ([]H, error) {
	hs, err := r.Store.GetRange(ctx, from, to)
	r.rec(storeCall{Op: "GetRange", From: from, To: to, N: len(hs), Err: err != nil})
	return hs, err
}

func (r *recStore) GetRangeByHeight(ctx context.Context, from H, to uint64) ([]H, error) {
	hs, err := r.Store.GetRangeByHeight(ctx, from, to)
	r.rec(storeCall{Op: "GetRangeByHeight", From: from.Height() + 1, To: to, N: len(hs), Err: err != nil})
	return hs, err
}

func (r *recStore) GetByHeight(ctx context.Context, h uint64) (H, error) {
	x, err := r.Store.GetByHeight(ctx, h)
	r.rec(storeCall{Op: "GetByHeight", From: h, To: h + 1, N: 1, Err: err != nil})
	return x, err
}

func (r *recStore) Get(ctx context.Context, hash header.Hash) (H, error) {
	x, err := r.Store.Get(ctx, hash)
	r.rec(storeCall{Op: "Get", N: 1, Err: err != nil})
	return x, err
}

// ---- a populated real store ----

type storeEnv struct {
	d     *memds.DS
	st    *store.Store[H]
	rs    *recStore
	chain *vh.Chain
	tail  uint64
	head  uint64
	head0 uint64 // >0: the head when the request arrived (the store has grown since)
}

// headAtRequest is the head a reply may legitimately be cut at.
func (e *storeEnv) headAtRequest() uint64 {
	if e.head0 > 0 {
		return e.head0
	}
	return e.head
}

func newStoreEnv(c *mon.Case, chain *vh.Chain, tail, head uint64) *storeEnv {
	e := &storeEnv{d: memds.New(), chain: chain, tail: tail, head: head}
	st, err := store.NewStore[H](e.d, store.WithWriteBatchSize(64))
	if err != nil {
		c.T.Fatalf("store: %v", err)
	}
	if err := st.Start(context.Background()); err != nil {
		c.T.Fatalf("store start: %v", err)
	}
	hs := chain.Range(tail, head+1)
	for len(hs) > 0 {
		n := min(len(hs), 2048)
		if err := st.Append(context.Background(), hs[:n]...); err != nil {
			c.T.Fatalf("append: %v", err)
		}
		hs = hs[n:]
	}
	ctx, cancel := context.WithTimeout(context.Background(), time.Hour)
	_ = st.Sync(ctx)
	cancel()
	e.st = st
	e.rs = &recStore{Store: st}
	return e
}

func (e *storeEnv) stop() {
	ctx, cancel := context.WithTimeout(context.Background(), time.Hour)
	_ = e.st.Stop(ctx)
	cancel()
}

// ---- servers and clients ----

func newServer(c *mon.Case, w *simnet.World, idx int, st header.Store[H], opts ...p2p.Option[p2p.ServerParameters]) *p2p.ExchangeServer[H] {
	opts = append([]p2p.Option[p2p.ServerParameters]{p2p.WithNetworkID[p2p.ServerParameters](simnet.NetworkID)}, opts...)
	srv, err := p2p.NewExchangeServer[H](w.Hosts[idx], st, opts...)
	if err != nil {
		c.T.Fatalf("server: %v", err)
	}
	if err := srv.Start(context.Background()); err != nil {
		c.T.Fatalf("server start: %v", err)
	}
	return srv
}

// kitViaParams: when set (by a case, for its own duration), newExchange applies all options to a
// DefaultClientParameters() value and hands that over with WithParams.
var kitViaParams bool

func newExchange(c *mon.Case, w *simnet.World, idx int, trusted []int, opts ...p2p.Option[p2p.ClientParameters]) *p2p.Exchange[H] {
	gater, err := conngater.NewBasicConnectionGater(dssync.MutexWrap(ds.NewMapDatastore()))
	if err != nil {
		c.T.Fatalf("gater: %v", err)
	}
	var tp peer.IDSlice
	for _, t := range trusted {
		tp = append(tp, w.Hosts[t].ID())
	}
	opts = append([]p2p.Option[p2p.ClientParameters]{p2p.WithNetworkID[p2p.ClientParameters](simnet.NetworkID), p2p.WithChainID(simnet.NetworkID)}, opts...)
	if kitViaParams {
		params := p2p.DefaultClientParameters()
		for _, o := range opts {
			o(&params)
		}
		opts = []p2p.Option[p2p.ClientParameters]{p2p.WithParams(params)}
	}
	ex, err := p2p.NewExchange[H](w.Hosts[idx], tp, gater, opts...)
	if err != nil {
		c.T.Fatalf("exchange: %v", err)
	}
	if err := ex.Start(context.Background()); err != nil {
		c.T.Fatalf("exchange start: %v", err)
	}
	return ex
}

// ---- raw wire client ----

type wireReply struct {
	Frames  []*p2p_pb.HeaderResponse
	End     string // eof | reset | timeout | error:<text>
	Elapsed time.Duration
}

// rawRequest sends bytes on a fresh stream to the server and reads response frames until the stream ends.
func rawRequest(w *simnet.World, from, to int, payload []byte, closeWrite bool, limit time.Duration) wireReply {
	ctx, cancel := context.WithTimeout(context.Background(), limit)
	defer cancel()
	s, err := w.Hosts[from].NewStream(ctx, w.Hosts[to].ID(), simnet.ProtocolID)
	if err != nil {
		return wireReply{End: "error:newstream:" + err.Error()}
	}
	t0 := time.Now()
	_ = s.SetDeadline(time.Now().Add(limit))
	if _, err := s.Write(payload); err != nil {
		_ = s.Reset()
		if errors.Is(err, network.ErrReset) {
			return wireReply{End: "reset", Elapsed: time.Since(t0)} // the peer gave up on us while we were still writing
		}
		return wireReply{End: "error:write:" + err.Error(), Elapsed: time.Since(t0)}
	}
	if closeWrite {
		_ = s.CloseWrite()
	}
	var rep wireReply
	for {
		resp := new(p2p_pb.HeaderResponse)
		_, err := serde.Read(s, resp)
		if err != nil {
			switch {
			case errors.Is(err, io.EOF):
				rep.End = "eof"
			case errors.Is(err, network.ErrReset):
				rep.End = "reset"
				if time.Since(t0) >= limit {
					rep.End = "timeout"
				}
			default:
				rep.End = "error:" + err.Error()
			}
			break
		}
		rep.Frames = append(rep.Frames, resp)
		if len(rep.Frames) > 4096 {
			rep.End = "error:too-many-frames"
			break
		}
	}
	rep.Elapsed = time.Since(t0)
	_ = s.Reset()
	return rep
}

// encodeReq returns the delimited encoding of a request.
func encodeReq(req *p2p_pb.HeaderRequest) []byte {
	b, err := req.Marshal()
	if err != nil {
		panic(err)
	}
	return simnet.Frame(b)
}

func originReq(origin, amount uint64) *p2p_pb.HeaderRequest {
	return &p2p_pb.HeaderRequest{Data: &p2p_pb.HeaderRequest_Origin{Origin: origin}, Amount: amount}
}

func hashReq(hash []byte, amount uint64) *p2p_pb.HeaderRequest {
	return &p2p_pb.HeaderRequest{Data: &p2p_pb.HeaderRequest_Hash{Hash: hash}, Amount: amount}
}

func u64class(x, tail, head uint64) string {
	switch {
	case x == 0:
		return "0"
	case x == ^uint64(0):
		return "max"
	case x+1 == tail:
		return "tail-1"
	case x < tail:
		return "<tail"
	case x == tail:
		return "tail"
	case x == head:
		return "head"
	case x == head+1:
		return "head+1"
	case x > head:
		return ">head"
	}
	return "mid"
}

var _ = fmt.Sprint

// decodeDelimited parses a uvarint-length-delimited protobuf message.
func decodeDelimited(b []byte, req *p2p_pb.HeaderRequest) error {
	n, k := binaryUvarint(b)
	if k <= 0 || uint64(len(b)-k) < n {
		return errors.New("short or malformed frame")
	}
	return req.Unmarshal(b[k : k+int(n)])
}

func binaryUvarint(b []byte) (uint64, int) {
	var x uint64
	var s uint
	for i, c := range b {
		if i == 10 {
			return 0, -1
		}
		if c < 0x80 {
			return x | uint64(c)<<s, i + 1
		}
		x |= uint64(c&0x7f) << s
		s += 7
	}
	return 0, 0
}
