//go:build verif

package p2pprops

import (
	"bytes"
	"context"
	"fmt"
	"testing"
	"testing/synctest"
	"time"

	header "github.com/celestiaorg/go-header"
	"github.com/celestiaorg/go-header/p2p"
	p2p_pb "github.com/celestiaorg/go-header/p2p/pb"

	"verifharness/mon"
	"verifharness/simnet"
	"verifharness/vh"
)

// ---- C10: ExchangeServer answers any request with bounded work and only true store data ----

type c10P struct {
	Tail    uint64 `json:"tail"`
	Head    uint64 `json:"head"`
	Kind    string `json:"kind"` // range | hash | raw
	Origin  uint64 `json:"origin,omitempty"`
	Amount  uint64 `json:"amount,omitempty"`
	Hash    string `json:"hash,omitempty"` // present | pruned | absent | empty | heightkey | big
	HashH   uint64 `json:"hash_h,omitempty"`
	Raw     string `json:"raw,omitempty"` // truncated | oversized | garbage | noclose | empty | bytes
	Seed    int64  `json:"seed,omitempty"`
	Prior   int    `json:"prior,omitempty"`   // ordinary range requests served by the same server before the probe (cross-request state)
	Grow    int    `json:"grow,omitempty"`    // the store grows by this many headers right after the server's first Head() call of the probe
	GrowAt  string `json:"grow_at,omitempty"` // "" = after the first Head() | hasat = after the first HasAt()
	Metrics bool   `json:"metrics,omitempty"` // the server is built WithMetrics
}

const (
	c10Read  = 2 * time.Second
	c10Req   = 3 * time.Second
	c10Write = time.Second
)

func TestC10(t *testing.T) {
	r := mon.Open(t, "C10")
	mon.Register(r, "request", c10Run)
	shapes := [][2]uint64{{1, 120}, {40, 200}}
	if !r.Quick() {
		shapes = append(shapes, [2]uint64{2000, 3000}, [2]uint64{1, 3000})
	} else {
		shapes = append(shapes, [2]uint64{2000, 2300})
	}
	maxu := ^uint64(0)
	for _, sh := range shapes {
		T, Hd := sh[0], sh[1]
		mid := (T + Hd) / 2
		origins := []uint64{0, T - 1, T, T + 1, mid, Hd - 70, Hd - 1, Hd, Hd + 1, Hd + 100, maxu}
		amounts := []uint64{0, 1, 2, 63, 64, 65, 1000, 1 << 63, 1<<63 + 7, maxu}
		for _, o := range origins {
			for _, a := range amounts {
				mon.Emit(r, "request", c10P{Tail: T, Head: Hd, Kind: "range", Origin: o, Amount: a}, "request")
			}
		}
		for _, hk := range []string{"present", "present-tail", "pruned", "absent", "empty", "heightkey", "big"} {
			for _, a := range []uint64{1, 0, 5} {
				mon.Emit(r, "request", c10P{Tail: T, Head: Hd, Kind: "hash", Hash: hk, HashH: mid, Amount: a}, "request")
			}
		}
		for _, raw := range []string{"truncated", "oversized", "garbage", "noclose", "empty", "nodata", "split-stop"} {
			mon.Emit(r, "request", c10P{Tail: T, Head: Hd, Kind: "raw", Raw: raw}, "request")
			mon.Emit(r, "request", c10P{Tail: T, Head: Hd, Kind: "raw", Raw: raw, Prior: 3}, "request")
		}
		// probes that leave fields off the wire, after the server has served ordinary requests
		for _, o := range []uint64{0, T, mid, Hd} {
			mon.Emit(r, "request", c10P{Tail: T, Head: Hd, Kind: "range", Origin: o, Amount: 0, Prior: 3}, "request")
		}
		for _, hk := range []string{"present", "absent", "empty"} {
			mon.Emit(r, "request", c10P{Tail: T, Head: Hd, Kind: "hash", Hash: hk, HashH: mid, Amount: 0, Prior: 3}, "request")
		}
	}
	// a server with metrics switched on answers the same kinds of requests
	for _, sh := range shapes[:2] {
		T, Hd := sh[0], sh[1]
		mid := (T + Hd) / 2
		for _, hk := range []string{"present", "pruned", "absent", "empty"} {
			mon.Emit(r, "request", c10P{Tail: T, Head: Hd, Kind: "hash", Hash: hk, HashH: mid, Amount: 1, Metrics: true}, "request")
		}
		for _, o := range []uint64{0, T - 1, T, mid, Hd, Hd + 1} {
			for _, a := range []uint64{0, 1, 5, 65} {
				mon.Emit(r, "request", c10P{Tail: T, Head: Hd, Kind: "range", Origin: o, Amount: a, Metrics: true}, "request")
			}
		}
		mon.Emit(r, "request", c10P{Tail: T, Head: Hd, Kind: "raw", Raw: "garbage", Metrics: true}, "request")
	}
	// the store grows while a request around its head is being handled
	for _, sh := range shapes[:2] {
		T, Hd := sh[0], sh[1]
		for _, o := range []uint64{Hd - 3, Hd - 1, Hd, Hd + 1, Hd + 2} {
			for _, a := range []uint64{1, 2, 5, 64, 65} {
				for _, g := range []int{1, 100} {
					mon.Emit(r, "request", c10P{Tail: T, Head: Hd, Kind: "range", Origin: o, Amount: a, Grow: g}, "request")
					mon.Emit(r, "request", c10P{Tail: T, Head: Hd, Kind: "range", Origin: o, Amount: a, Grow: g, GrowAt: "hasat"}, "request")
				}
			}
		}
	}
	rng := r.Rand("c10")
	for i := 0; i < r.N(120, 19000); i++ {
		sh := shapes[rng.Intn(2)]
		p := c10P{Tail: sh[0], Head: sh[1], Seed: rng.Int63(), Prior: rng.Intn(3)}
		switch rng.Intn(3) {
		case 0:
			p.Kind, p.Origin, p.Amount = "range", uint64(rng.Int63n(int64(sh[1]+80))), uint64(rng.Int63n(90))
		case 1:
			p.Kind, p.Raw = "raw", "bytes"
		default:
			p.Kind, p.Origin, p.Amount = "range", rng.Uint64(), rng.Uint64()
		}
		mon.Emit(r, "request", p, "request")
	}
	r.Finish()
}

func c10Run(c *mon.Case, p c10P) {
	c.Bubble(func() {
		chain := chainOf(int(p.Head) + 8 + p.Grow)
		se := newStoreEnv(c, chain, p.Tail, p.Head)
		defer se.stop()
		w, err := simnet.New(2, time.Millisecond)
		if err != nil {
			c.T.Fatalf("simnet: %v", err)
		}
		defer w.Close()
		sopts := []p2p.Option[p2p.ServerParameters]{p2p.WithReadDeadline[p2p.ServerParameters](c10Read), p2p.WithWriteDeadline[p2p.ServerParameters](c10Write), p2p.WithRequestTimeout[p2p.ServerParameters](c10Req)}
		if p.Metrics {
			sopts = append(sopts, p2p.WithMetrics[p2p.ServerParameters]())
		}
		srv := newServer(c, w, 0, se.rs, sopts...)
		defer func() { _ = srv.Stop(context.Background()) }()
		if err := w.Connect(1, 0); err != nil {
			c.T.Fatalf("connect: %v", err)
		}
		synctest.Wait()
		for i := 0; i < p.Prior; i++ {
			o := p.Tail + uint64(i)
			pr := rawRequest(w, 1, 0, encodeReq(originReq(o, 4)), true, 30*time.Second)
			synctest.Wait()
			c.Count("prior requests", 1)
			if len(pr.Frames) != 4 {
				c.Violation("prior-request-not-served", fmt.Sprintf("ordinary request (origin %d, amount 4) got %d frames, end %s", o, len(pr.Frames), pr.End), nil)
			}
		}
		se.rs.Reset()
		se.d.ResetReads()
		oldHead := se.head
		if p.Grow > 0 {
			grow := func() {
				gctx, gc := context.WithTimeout(context.Background(), time.Minute)
				defer gc()
				_ = se.st.Append(gctx, chain.Range(oldHead+1, oldHead+1+uint64(p.Grow))...)
				_ = se.st.Sync(gctx)
				c.Count("store_grew_during_request", 1)
			}
			if p.GrowAt == "hasat" {
				se.rs.OnHasAt = grow
			} else {
				se.rs.OnHead = grow
			}
		}

		var payload []byte
		splitStop := false
		closeWrite := true
		amount := p.Amount
		var wantHash []byte
		class := ""
		switch p.Kind {
		case "range":
			payload = encodeReq(originReq(p.Origin, p.Amount))
			class = fmt.Sprintf("range origin=%s amount=%s", u64class(p.Origin, p.Tail, p.Head), amtClass(p.Amount))
		case "hash":
			switch p.Hash {
			case "present":
				wantHash = chain.At(p.HashH).Hash()
			case "present-tail":
				wantHash = chain.At(p.Tail).Hash()
			case "pruned":
				if p.Tail > 1 {
					wantHash = chain.At(p.Tail - 1).Hash()
				} else {
					wantHash = bytes.Repeat([]byte{0xAB}, 32)
				}
			case "absent":
				wantHash = bytes.Repeat([]byte{0xCD}, 32)
			case "empty":
				wantHash = []byte{} // on the wire: the hash field is present and empty (12 00), not absent
			case "heightkey":
				wantHash = []byte{0x10 + byte(p.Tail%5)} // its key string is all digits: collides with a height-index key
				if p.Tail > 1 {
					wantHash = []byte{0x20, 0x00} // "2000"
				}
			case "big":
				wantHash = bytes.Repeat([]byte{0xEF}, 1<<20)
			}
			payload = encodeReq(hashReq(wantHash, p.Amount))
			class = "hash " + p.Hash + " amount=" + amtClass(p.Amount)
		case "raw":
			amount = 0
			class = "raw " + p.Raw
			switch p.Raw {
			case "truncated":
				full := encodeReq(originReq(p.Tail, 3))
				payload = full[:len(full)-2]
			case "oversized":
				payload = simnet.LenPrefix(1 << 40)
			case "garbage":
				payload = simnet.Frame(bytes.Repeat([]byte{0xFF, 0x00, 0x7F}, 40))
			case "noclose":
				payload = encodeReq(originReq(p.Tail, 2))[:3]
				closeWrite = false
			case "split-stop":
				// a complete, valid request whose last byte only arrives after the server was stopped
				full := encodeReq(originReq(p.Tail, 2))
				payload = full
				splitStop = true
			case "empty":
				payload = simnet.Frame(nil)
			case "nodata":
				payload = nil
			case "bytes":
				rng := c.Rand("bytes")
				b := make([]byte, rng.Intn(64))
				rng.Read(b)
				if rng.Intn(2) == 0 {
					payload = simnet.Frame(b)
				} else {
					payload = b
				}
				closeWrite = rng.Intn(4) != 0
			}
		}
		limit := c10Read + c10Req + c10Write
		if splitStop {
			// all but the last byte, Stop, then the last byte: the handler that is still reading must not crash the node
			sctx, sc := context.WithTimeout(context.Background(), limit)
			s, err := w.Hosts[1].NewStream(sctx, w.Hosts[0].ID(), simnet.ProtocolID)
			sc()
			if err == nil {
				_, _ = s.Write(payload[:len(payload)-1])
				synctest.Wait()
				_ = srv.Stop(context.Background())
				synctest.Wait()
				_, _ = s.Write(payload[len(payload)-1:])
				_ = s.CloseWrite()
				time.Sleep(limit)
				synctest.Wait()
				_ = s.Reset()
			}
			c.Count("requests_completed_after_stop", 1)
			c.Class("tail=%d raw split-stop", p.Tail)
			return
		}
		rep := rawRequest(w, 1, 0, payload, closeWrite, limit+5*time.Second)
		synctest.Wait()
		c.Count("requests", 1)
		c.Count("frames", len(rep.Frames))

		// ---- classify the reply ----
		kind := "reset"
		nOK, nNF, nOther := 0, 0, 0
		for _, f := range rep.Frames {
			switch f.StatusCode {
			case p2p_pb.StatusCode_OK:
				nOK++
			case p2p_pb.StatusCode_NOT_FOUND:
				nNF++
			default:
				nOther++
			}
		}
		switch {
		case rep.End == "timeout" || rep.End[:min(5, len(rep.End))] == "error":
			kind = rep.End
		case len(rep.Frames) == 0 && rep.End == "eof":
			kind = "empty-close"
		case len(rep.Frames) == 0:
			kind = "reset"
		case nNF == 1 && len(rep.Frames) == 1:
			kind = "not-found"
		case nOK == len(rep.Frames):
			kind = "ok"
		default:
			kind = "mixed"
		}
		if p.Prior > 0 {
			class += " after-prior"
		}
		if p.Metrics {
			class += " metrics"
		}
		if p.Grow > 0 {
			class += " store-grows" + p.GrowAt
			se.head0, se.head = oldHead, oldHead+uint64(p.Grow) // content may come from the grown store, the cut from the old head
		}
		c.Class("tail=%d %s => %s", p.Tail, class, kind)
		sig := p.Kind
		if p.Kind == "raw" {
			sig += "/" + p.Raw
		}

		// (1) bounded time
		if rep.Elapsed > limit {
			c.Violation("handler-exceeds-timeouts/"+sig, fmt.Sprintf("stream ended after %v (read %v + request %v + write %v = %v): %s", rep.Elapsed, c10Read, c10Req, c10Write, limit, rep.End), nil)
		}
		if kind == "timeout" || (len(kind) > 5 && kind[:5] == "error") {
			c.Violation("handler-hangs-or-misbehaves/"+sig, fmt.Sprintf("stream outcome %s after %v", rep.End, rep.Elapsed), nil)
		}
		// (2) reply shape
		if kind == "mixed" || kind == "empty-close" || nOther > 0 {
			c.Violation("reply-shape/"+sig+"/"+kind, fmt.Sprintf("reply is neither reset, single NOT_FOUND nor OK frames: %d OK, %d NOT_FOUND, %d other, end %s", nOK, nNF, nOther, rep.End), nil)
		}
		// (3) bounded work
		want := min(amount, header.MaxRangeRequestSize)
		var span uint64
		for _, sc := range se.rs.Calls() {
			if sc.Op == "GetRange" || sc.Op == "GetRangeByHeight" {
				if sc.To > sc.From {
					span += sc.To - sc.From
				}
			}
		}
		if span > want {
			c.Violation("reads-more-than-requested/"+sig, fmt.Sprintf("store range reads span %d headers for a request of amount %d (origin %d, tail %d, head %d): %+v", span, amount, p.Origin, p.Tail, p.Head, se.rs.Calls()), nil)
		}
		reads, by := se.d.Reads()
		if uint64(reads) > 4*want+24 {
			c.Violation("datastore-reads-unbounded/"+sig, fmt.Sprintf("%d datastore reads (%v) for amount %d", reads, by, amount), nil)
		}
		c.Count("datastore_reads", reads)
		// (4) content
		if kind != "ok" {
			return
		}
		hs := make([]*vh.Header, len(rep.Frames))
		for i, f := range rep.Frames {
			h, err := vh.Decode(f.Body)
			if err != nil {
				c.Violation("ok-frame-undecodable/"+sig, fmt.Sprintf("frame %d: %v", i, err), nil)
				return
			}
			hs[i] = h
		}
		switch {
		case p.Kind == "raw":
			// random bytes that happen to parse as a request: the content rule of that request applies
			var req p2p_pb.HeaderRequest
			// strip the length prefix if any; if it does not parse we cannot say which rule applies
			if err := decodeDelimited(payload, &req); err != nil {
				c.Violation("ok-reply-to-malformed-request/"+sig, fmt.Sprintf("%d OK frames for bytes %x", len(hs), payload), nil)
				return
			}
			if o, ok := req.Data.(*p2p_pb.HeaderRequest_Origin); ok {
				c10Content(c, se, sig, o.Origin, req.Amount, hs)
			} else if hq, ok := req.Data.(*p2p_pb.HeaderRequest_Hash); ok {
				c10Hash(c, sig, hq.Hash, hs)
			} else if req.Amount > 0 {
				// no data field: GetOrigin() is 0, i.e. a head request is the only defensible reading
				c10Content(c, se, sig, 0, req.Amount, hs)
			}
		case p.Kind == "hash":
			c10Hash(c, sig, wantHash, hs)
		default:
			c10Content(c, se, sig, p.Origin, p.Amount, hs)
		}
	})
}

func c10Hash(c *mon.Case, sig string, want []byte, hs []*vh.Header) {
	if len(hs) != 1 || !bytes.Equal(hs[0].Hash(), want) {
		c.Violation("hash-reply-wrong-header/"+sig, fmt.Sprintf("requested hash %x, got %d headers, first %v", want[:min(8, len(want))], len(hs), hs[0]), nil)
	}
}

func c10Content(c *mon.Case, se *storeEnv, sig string, origin, amount uint64, hs []*vh.Header) {
	if origin == 0 {
		if len(hs) != 1 || hs[0].Height() != se.head || !se.chain.Canonical(hs[0]) {
			c.Violation("head-request-wrong-reply/"+sig, fmt.Sprintf("head request answered with %d headers, first %v; store head is %d", len(hs), hs[0], se.head), nil)
		}
		return
	}
	if uint64(len(hs)) > amount {
		c.Violation("more-headers-than-requested/"+sig, fmt.Sprintf("%d headers for amount %d", len(hs), amount), nil)
		return
	}
	for i, h := range hs {
		hh := origin + uint64(i)
		if h.Height() != hh || !se.chain.Canonical(h) || hh < se.tail || hh > se.head {
			c.Violation("reply-not-the-stores-headers/"+sig, fmt.Sprintf("frame %d is %v, expected the store's header at height %d (tail %d, head %d)", i, h, hh, se.tail, se.head), nil)
			return
		}
	}
	if uint64(len(hs)) < amount && origin+amount-1 <= se.headAtRequest() {
		c.Violation("short-reply-inside-store/"+sig, fmt.Sprintf("%d of %d headers although origin %d + amount - 1 <= head %d", len(hs), amount, origin, se.head), nil)
	}
}

func amtClass(a uint64) string {
	switch {
	case a <= 2:
		return fmt.Sprint(a)
	case a < 64:
		return "3-63"
	case a == 64:
		return "64"
	case a == 65:
		return "65"
	case a == ^uint64(0):
		return "max"
	}
	return ">65"
}
