//go:build verif

package syncprops

import (
	"context"
	"errors"
	"fmt"
	"strings"
	"sync"
	"testing"
	"time"

	hsync "github.com/celestiaorg/go-header/sync"

	"verifharness/mon"
	"verifharness/vh"
)

// ---- C19: Syncer.Head is fresh, monotone and never adopts an expired header ----

type c19Step struct {
	Op   string `json:"op"`             // sleep | head | heads | gossip | mode | ranges (Mode: ok | fail - whether the getter serves range requests)
	Ms   int    `json:"ms,omitempty"`   // sleep
	N    int    `json:"n,omitempty"`    // heads: concurrent callers
	Stag int    `json:"stag,omitempty"` // heads: callers start this many ms apart (all within the in-flight request)
	Mode string `json:"mode,omitempty"` // fresh | same | lower | expired | expiring | error | hang
}

type c19P struct {
	Empty bool      `json:"empty"` // start with an empty store
	Steps []c19Step `json:"steps"`
	// BTFirstMs > 0: the block time option is applied twice, first with this value (a default), then with the real
	// one (the override); no explicit recency threshold. Must behave exactly like the real one alone.
	BTFirstMs int `json:"bt_first_ms,omitempty"`
	// ViaParams: the options are applied to a Parameters value (DefaultParameters() first) that is handed over with
	// WithParams, instead of being passed to NewSyncer one by one
	ViaParams bool `json:"via_params,omitempty"`
}

const (
	c19BT = time.Second
	c19TP = time.Minute
	c19S0 = 20
)

var c19Err = errors.New("c19: trusted peers unavailable")
var errHang = errors.New("c19: hanging peers")

func TestC19(t *testing.T) {
	r := mon.Open(t, "C19")
	mon.Register(r, "script", c19Run)
	sleeps := []int{500, 2900, 3000, 3100, 10000, 56000, 59000, 61000, 120000}
	modes := []string{"fresh", "same", "lower", "expired", "error", "hang"}
	// systematic: (state reached by one sleep) x (getter mode) x (sequential | concurrent), with Start
	// either before the sleep (running Syncer whose head ages) or after it (Start on an aged store)
	for _, empty := range []bool{false, true} {
		for _, ms := range sleeps {
			for _, m := range modes {
				for _, n := range []int{1, 5} {
					tail := []c19Step{{Op: "head"}, {Op: "head"}}
					if n > 1 {
						tail = []c19Step{{Op: "heads", N: n, Stag: []int{0, 7, 300}[(ms/100+len(m))%3]}, {Op: "head"}}
					}
					if !empty {
						st := append([]c19Step{{Op: "start"}, {Op: "mode", Mode: m}, {Op: "sleep", Ms: ms}}, tail...)
						mon.Emit(r, "script", c19P{Steps: st}, "script")
					}
					st := append([]c19Step{{Op: "mode", Mode: m}, {Op: "sleep", Ms: ms}, {Op: "start"}, {Op: "mode", Mode: "fresh"}, {Op: "sleep", Ms: 3500}}, tail...)
					mon.Emit(r, "script", c19P{Empty: empty, Steps: st}, "script")
				}
			}
		}
	}
	// the sync loop cannot fetch ranges for a while: the subjective head is a pending target ahead of the store
	for _, ms := range []int{500, 3100, 10000} {
		for _, m := range []string{"fresh", "same", "error"} {
			for _, n := range []int{1, 4} {
				hs := c19Step{Op: "head"}
				if n > 1 {
					hs = c19Step{Op: "heads", N: n}
				}
				st := []c19Step{{Op: "start"}, {Op: "ranges", Mode: "fail"}, {Op: "sleep", Ms: 10000}, {Op: "head"}, {Op: "mode", Mode: m}, {Op: "sleep", Ms: ms}, hs, {Op: "head"}, {Op: "ranges", Mode: "ok"}, {Op: "mode", Mode: "fresh"}, {Op: "sleep", Ms: 3100}, {Op: "head"}}
				mon.Emit(r, "script", c19P{Steps: st}, "script")
				st2 := []c19Step{{Op: "start"}, {Op: "ranges", Mode: "fail"}, {Op: "sleep", Ms: 5000}, {Op: "gossip"}, {Op: "mode", Mode: m}, {Op: "sleep", Ms: ms}, hs, {Op: "head"}}
				mon.Emit(r, "script", c19P{Steps: st2}, "script")
			}
		}
	}
	// the same parameters handed over as one Parameters value (WithParams)
	for _, empty := range []bool{false, true} {
		for _, ms := range []int{500, 3100, 61000, 120000} {
			for _, m := range []string{"fresh", "expired", "error"} {
				st := []c19Step{{Op: "mode", Mode: m}, {Op: "sleep", Ms: ms}, {Op: "start"}, {Op: "head"}, {Op: "mode", Mode: "fresh"}, {Op: "sleep", Ms: 3500}, {Op: "head"}}
				mon.Emit(r, "script", c19P{Empty: empty, Steps: st, ViaParams: true}, "script")
				if !empty {
					st2 := []c19Step{{Op: "start"}, {Op: "mode", Mode: m}, {Op: "sleep", Ms: ms}, {Op: "head"}, {Op: "heads", N: 3}}
					mon.Emit(r, "script", c19P{Steps: st2, ViaParams: true}, "script")
				}
			}
		}
	}
	// the block time configured twice (default, then override)
	for _, first := range []int{1, 3600000} {
		for _, ms := range []int{500, 2900, 3100, 10000} {
			for _, m := range []string{"fresh", "same"} {
				for _, n := range []int{1, 5} {
					tail := []c19Step{{Op: "head"}, {Op: "head"}}
					if n > 1 {
						tail = []c19Step{{Op: "heads", N: n}, {Op: "head"}}
					}
					st := append([]c19Step{{Op: "start"}, {Op: "mode", Mode: m}, {Op: "sleep", Ms: ms}}, tail...)
					mon.Emit(r, "script", c19P{Steps: st, BTFirstMs: first}, "script")
				}
			}
		}
	}
	// (re)initialisation with trusted peers whose head crosses the trusting period while the request is in flight
	// (requested at x.97 s: 59.97 s old when asked for, 60.02 s old when it arrives)
	for _, empty := range []bool{false, true} {
		for _, ms := range []int{61970, 75970, 130970} {
			mon.Emit(r, "script", c19P{Empty: empty, Steps: []c19Step{{Op: "mode", Mode: "expiring"}, {Op: "sleep", Ms: ms}, {Op: "start"}, {Op: "head"}}}, "script")
			if !empty {
				mon.Emit(r, "script", c19P{Steps: []c19Step{{Op: "start"}, {Op: "mode", Mode: "expiring"}, {Op: "sleep", Ms: ms}, {Op: "head"}, {Op: "heads", N: 3}, {Op: "mode", Mode: "fresh"}, {Op: "head"}}}, "script")
			}
		}
	}
	// a caller arriving at the very instant the shared request completes, while the head stays stale ("same"):
	// request N ends, its waiters wake up, and request N+1 starts, all at one virtual instant
	for rep := 0; rep < r.N(12, 300); rep++ {
		for _, nst := range [][2]int{{2, 50}, {3, 25}, {6, 10}, {4, 50}, {5, 25}} {
			for _, m := range []string{"same", "lower"} {
				st := []c19Step{{Op: "start"}, {Op: "mode", Mode: m}, {Op: "sleep", Ms: 3100 + rep}, {Op: "heads", N: nst[0], Stag: nst[1]}, {Op: "heads", N: nst[0], Stag: nst[1]}, {Op: "head"}}
				mon.Emit(r, "script", c19P{Steps: st}, "script")
			}
		}
	}
	rng := r.Rand("c19")
	for i := 0; i < r.N(300, 10000); i++ {
		p := c19P{Empty: rng.Intn(6) == 0}
		if rng.Intn(3) != 0 {
			p.Steps = append(p.Steps, c19Step{Op: "start"})
		}
		for j := 3 + rng.Intn(8); j > 0; j-- {
			switch x := rng.Intn(10); {
			case x < 3:
				p.Steps = append(p.Steps, c19Step{Op: "sleep", Ms: sleeps[rng.Intn(len(sleeps))]})
			case x < 6:
				p.Steps = append(p.Steps, c19Step{Op: "head"})
			case x < 7:
				p.Steps = append(p.Steps, c19Step{Op: "heads", N: 2 + rng.Intn(6), Stag: []int{0, 0, 5, 250}[rng.Intn(4)]})
				if rng.Intn(3) == 0 {
					p.Steps = append(p.Steps, c19Step{Op: "start"})
				}
			case x < 8:
				p.Steps = append(p.Steps, c19Step{Op: "gossip"})
			default:
				p.Steps = append(p.Steps, c19Step{Op: "mode", Mode: modes[rng.Intn(len(modes))]})
			}
		}
		mon.Emit(r, "script", p, "script")
	}
	r.Finish()
}

func c19Run(c *mon.Case, p c19P) {
	c.Bubble(func() {
		vh.SetTrustRange(0)
		// header at height h has time epoch + (h - S0) seconds: the network produces one header per second
		total := c19S0 + 400
		chain := regularChain(total, c19BT, -time.Duration(total-c19S0)*c19BT)
		epoch := time.Now()
		tipNow := func() uint64 {
			return min(uint64(c19S0)+uint64(time.Since(epoch)/c19BT), uint64(total))
		}
		to := uint64(c19S0)
		if p.Empty {
			to = 0
		}
		w := newWorld(c, chain, 1, to, uint64(total))
		defer w.close()
		mode := "fresh"
		var mmu sync.Mutex
		w.g.HeadDelay = 50 * time.Millisecond
		var sbjAtCall H // set by the oracle before each call: what "same"/"lower" refer to
		w.g.HeadFn = func(call int, trusted H) (H, error) {
			mmu.Lock()
			m, sbj := mode, sbjAtCall
			mmu.Unlock()
			switch m {
			case "same":
				if sbj != nil {
					return sbj, nil
				}
				return chain.At(tipNow()), nil
			case "lower":
				if sbj != nil && sbj.Height() > 3 {
					return chain.At(sbj.Height() - 3), nil
				}
				return chain.At(1), nil
			case "expired":
				// a header older than the trusting period
				back := uint64(c19TP/c19BT) + 5
				t := tipNow()
				if t <= back {
					return chain.At(1), nil
				}
				return chain.At(t - back), nil
			case "expiring":
				// within the trusting period when asked for, beyond it when the answer arrives (for requests made
				// less than HeadDelay before a full second; this function runs when the answer is due)
				back := uint64(c19TP / c19BT)
				t := tipNow()
				if t <= back {
					return chain.At(1), nil
				}
				return chain.At(t - back), nil
			case "error":
				return nil, c19Err
			case "hang":
				return nil, errHang
			}
			return chain.At(tipNow()), nil
		}
		w.g.HeadBlock = func() bool { mmu.Lock(); defer mmu.Unlock(); return mode == "hang" }
		// ranges are only served up to the current network tip
		rangesFail := false
		w.g.RangeFn = func(_ int, from H, to uint64) ([]H, error, bool) {
			mmu.Lock()
			rf := rangesFail
			mmu.Unlock()
			if rf {
				return nil, c19Err, true
			}
			out := chain.Range(from.Height()+1, min(to, tipNow()+1))
			if len(out) == 0 {
				return nil, c19Err, true
			}
			return out, nil, true
		}
		w.g.ByHeightFn = func(_ int, h uint64) (H, error, bool) {
			if h == 0 || h > tipNow() {
				return nil, c19Err, true
			}
			return chain.At(h), nil, true
		}
		sopts := []hsync.Option{hsync.WithBlockTime(c19BT), hsync.WithTrustingPeriod(c19TP), hsync.WithSyncFromHeight(1)}
		if p.BTFirstMs > 0 {
			sopts = append([]hsync.Option{hsync.WithBlockTime(time.Duration(p.BTFirstMs) * time.Millisecond)}, sopts...)
		}
		if p.ViaParams {
			params := hsync.DefaultParameters()
			for _, o := range sopts {
				o(&params)
			}
			sopts = []hsync.Option{hsync.WithParams(params)}
		}
		if err := w.newSyncer(sopts...); err != nil {
			c.T.Fatalf("syncer: %v", err)
		}
		// model of the subjective head: highest header accepted so far
		var sbj H
		if !p.Empty {
			sbj = chain.At(c19S0)
		}
		expired := func(h H) bool { return h != nil && time.Now().After(h.Time().Add(c19TP)) }
		recent := func(h H) bool { return h != nil && !time.Now().After(h.Time().Add(3*c19BT)) }
		var lastReturned uint64
		var classes []string

		// one Head() observation (also used for Start, which calls Head internally)
		observe := func(n int, viaStart bool, stag ...int) {
			mmu.Lock()
			sbjAtCall = sbj
			m := mode
			mmu.Unlock()
			state := "recent"
			switch {
			case sbj == nil:
				state = "empty"
			case expired(sbj):
				state = "expired"
			case !recent(sbj):
				state = "stale"
			}
			before := len(w.g.Calls("head"))
			type res struct {
				h   H
				err error
			}
			results := make([]res, n)
			if viaStart {
				err := w.start()
				results[0] = res{nil, err}
				if err == nil {
					hctx, hc := context.WithTimeout(context.Background(), time.Minute)
					h, herr := w.syn.Head(hctx)
					hc()
					results[0] = res{h, herr}
				}
			} else {
				var wg sync.WaitGroup
				for i := 0; i < n; i++ {
					wg.Add(1)
					go func() {
						defer wg.Done()
						if len(stag) > 0 && stag[0] > 0 {
							time.Sleep(time.Duration(i*stag[0]) * time.Millisecond)
						}
						hctx, hc := context.WithTimeout(context.Background(), time.Minute)
						h, err := w.syn.Head(hctx)
						hc()
						results[i] = res{h, err}
					}()
				}
				wg.Wait()
			}
			calls := w.g.Calls("head")[before:]
			// the observation itself takes virtual time (response delay, hanging peers, staggered callers): if the
			// subjective head crossed the recency or expiry boundary meanwhile, the request pattern is not decidable
			stateAfter := "recent"
			switch {
			case sbj == nil:
				stateAfter = "empty"
			case expired(sbj):
				stateAfter = "expired"
			case !recent(sbj):
				stateAfter = "stale"
			}
			crossed := stateAfter != state && state != "empty"
			c.Count("head_calls", n)
			c.Count("getter_head_requests", len(calls))
			kind := map[bool]string{true: "concurrent", false: "sequential"}[n > 1]
			if viaStart {
				kind = "start"
			}
			sig := fmt.Sprintf("state=%s/getter=%s/%s", state, m, kind)
			classes = append(classes, fmt.Sprintf("%s:%s:%s", state, m, kind))
			if crossed {
				classes[len(classes)-1] += ":crossed"
			}
			switch {
			case crossed:
			case state == "recent":
				if len(calls) != 0 && !viaStart {
					c.Violation("recent-head-caused-network-traffic/"+sig, fmt.Sprintf("%d head request(s) although the subjective head %v is recent", len(calls), sbj), nil)
				}
			case state == "stale":
				want := 1
				window := 50 // ms: the scripted response time of the trusted getter
				if m == "hang" {
					window = 2000 // NetworkHeadRequestTimeout
				}
				shared := len(stag) == 0 || (n-1)*stag[0] < window
				if !shared {
					want = -1 // later callers arrive after the request completed: not covered by the statement
				}
				if viaStart {
					want = -1 // Start's Head and the probe afterwards: only the trusted-head parameter is checked
				}
				if want > 0 && len(calls) != want {
					c.Violation("stale-head-request-count/"+sig, fmt.Sprintf("%d head requests for %d caller(s) with a stale subjective head, expected exactly 1", len(calls), n), nil)
				}
				for _, gc := range calls {
					if gc.Trusted != sbj.Height() {
						c.Violation("stale-head-request-not-against-subjective-head/"+sig, fmt.Sprintf("head request carried TrustedHead height %d, subjective head is %d", gc.Trusted, sbj.Height()), nil)
					}
				}
			case state == "expired" || state == "empty":
				if len(calls) == 0 {
					c.Violation("reinit-without-head-request/"+sig, "no head request although the subjective head is expired / the store is empty", nil)
				}
				for i, gc := range calls {
					if i == 0 && gc.Trusted != 0 {
						c.Violation("reinit-request-carries-trusted-head/"+sig, fmt.Sprintf("(re)initialisation asked with TrustedHead %d", gc.Trusted), nil)
					}
				}
			}
			// results
			var first H
			for i, rs := range results {
				if rs.err != nil {
					if (state == "recent" || state == "stale") && !crossed {
						c.Violation("head-fails-with-usable-subjective-head/"+sig, fmt.Sprintf("Head() returned %v although a non-expired subjective head exists", rs.err), nil)
					}
					continue
				}
				h := rs.h
				if h == nil {
					c.Violation("zero-head-with-nil-error/"+sig, fmt.Sprintf("caller %d of %d got a zero header and a nil error", i, n), nil)
					continue
				}
				if !chain.Canonical(h) {
					c.Violation("head-returns-foreign-header/"+sig, fmt.Sprint(h), nil)
					continue
				}
				if (state == "expired" || state == "empty") && expired(h) {
					c.Violation("expired-header-adopted/"+sig, fmt.Sprintf("Head() returned %v (nil error), which is older than the trusting period at %v", h, time.Since(epoch)), nil)
				}
				if h.Height() < lastReturned {
					c.Violation("head-decreased/"+sig, fmt.Sprintf("Head() returned height %d after %d", h.Height(), lastReturned), nil)
				}
				if n > 1 && state == "stale" && (len(stag) == 0 || (n-1)*stag[0] < 50) {
					if first == nil {
						first = h
					} else if first.Hash().String() != h.Hash().String() {
						c.Violation("concurrent-callers-got-different-heads/"+sig, fmt.Sprintf("caller 0 got %v, caller %d got %v", first, i, h), nil)
					}
				}
				if sbj == nil || h.Height() > sbj.Height() {
					sbj = h
				}
			}
			for _, rs := range results {
				if rs.err == nil && rs.h != nil && rs.h.Height() > lastReturned {
					lastReturned = rs.h.Height()
				}
			}
		}

		started := false
		for _, st := range p.Steps {
			switch st.Op {
			case "sleep":
				time.Sleep(time.Duration(st.Ms) * time.Millisecond)
			case "mode":
				mmu.Lock()
				mode = st.Mode
				mmu.Unlock()
			case "ranges":
				mmu.Lock()
				rangesFail = st.Mode == "fail"
				mmu.Unlock()
				classes = append(classes, "ranges:"+st.Mode)
			case "start":
				if !started {
					observe(1, true)
					if !w.started {
						classes = append(classes, "start-failed")
						continue // judged in observe; may be retried by a later start step
					}
					started = true
				}
			case "head", "heads":
				if started {
					observe(max(1, st.N), false, st.Stag)
				}
			case "gossip":
				if !started {
					continue
				}
				h := chain.At(tipNow())
				ctx, cancel := context.WithTimeout(context.Background(), time.Minute)
				err := w.sub.deliver(ctx, h)
				cancel()
				if err == nil && (sbj == nil || h.Height() > sbj.Height()) {
					sbj = h
				}
				classes = append(classes, fmt.Sprintf("gossip:%v", err == nil))
			}
		}
		w.settle()
		w.storeCheck("store")
		c.Class("empty=%v %s", p.Empty, strings.Join(dedup(classes), " "))
	})
}

func dedup(k []string) []string {
	var out []string
	for _, s := range k {
		if len(out) == 0 || out[len(out)-1] != s {
			out = append(out, s)
		}
	}
	return out
}
