//go:build verif

package syncprops

import (
	"context"
	"errors"
	"fmt"
	"math/bits"
	"sync"
	"testing"
	"time"

	header "github.com/celestiaorg/go-header"
	hsync "github.com/celestiaorg/go-header/sync"

	"verifharness/mon"
	"verifharness/vh"
)

// ---- C15: Bifurcation accepts a soft-failing head iff a verifiable path exists; terminates ----

type c15P struct {
	S        uint64 `json:"s"`                   // subjective (store) head
	D        uint64 `json:"d"`                   // distance to the candidate
	R        uint64 `json:"r"`                   // trust range
	Cand     string `json:"cand"`                // canonical | forged-rightlink | forged-wronglink | signed-relink
	FailAt   int    `json:"fail_at"`             // index of the getter.GetByHeight call that fails (-1 none)
	Via      string `json:"via"`                 // "" = gossip delivery | "head" = learned through Syncer.Head() from the trusted getter
	FailKind string `json:"fail_kind,omitempty"` // "" generic error | notfound (header.ErrNotFound once) | notfound-from (ErrNotFound from that call on)
	Soft     bool   `json:"soft"`                // the header type reports its own rejections as SoftFailure (also adjacent ones)
	// Redeliver: after a delivery during which the getter failed (once), the same candidate is delivered again
	// with the getter healthy: the verdict must then be the one of a first delivery
	Redeliver bool `json:"redeliver,omitempty"`
	// Callers > 1 (via head): that many Syncer.Head() calls overlap (the head request takes 50 ms); none of them
	// may adopt a candidate the search refuses
	Callers int `json:"callers,omitempty"`
}

func TestC15(t *testing.T) {
	r := mon.Open(t, "C15")
	mon.Register(r, "bifurcate", c15Run)
	cands := []string{"canonical", vh.VForgedRightLink, vh.VForgedWrongLink, vh.VSignedRelink}
	var ds []uint64
	for d := uint64(2); d <= 40; d++ {
		ds = append(ds, d)
	}
	ds = append(ds, 100, 1000)
	if !r.Quick() {
		ds = append(ds, 100000)
	}
	rng := r.Rand("c15")
	// the candidate arrives through the head-request path; header types that flag their rejections soft
	for _, d := range []uint64{1, 2, 3, 7, 30} {
		for _, R := range []uint64{1, 2, 5} {
			for _, cand := range []string{"canonical", vh.VForgedRightLink, vh.VForgedWrongLink} {
				for _, soft := range []bool{false, true} {
					for _, via := range []string{"", "head"} {
						if d == 1 && !soft {
							continue // adjacent and hard: never reaches bifurcation
						}
						mon.Emit(r, "bifurcate", c15P{S: 10, D: d, R: R, Cand: cand, FailAt: -1, Via: via, Soft: soft}, "bifurcate")
					}
				}
			}
		}
	}
	for _, d := range []uint64{2, 3, 5, 9, 17, 40} {
		for _, R := range []uint64{1, 2, 4} {
			if R >= d {
				continue
			}
			for _, fk := range []string{"notfound", "notfound-from"} {
				for k := 0; k < 4; k++ {
					mon.Emit(r, "bifurcate", c15P{S: 10, D: d, R: R, Cand: "canonical", FailAt: k, FailKind: fk}, "bifurcate")
				}
				mon.Emit(r, "bifurcate", c15P{S: 10, D: d, R: R, Cand: vh.VForgedRightLink, FailAt: 1, FailKind: fk}, "bifurcate")
			}
		}
	}
	// overlapping Head() callers sharing one head request
	for _, d := range []uint64{1, 2, 3, 7} {
		for _, R := range []uint64{1, 2} {
			for _, cand := range []string{"canonical", vh.VForgedRightLink, vh.VForgedWrongLink} {
				for _, soft := range []bool{false, true} {
					if d == 1 && !soft {
						continue
					}
					mon.Emit(r, "bifurcate", c15P{S: 10, D: d, R: R, Cand: cand, FailAt: -1, Via: "head", Soft: soft, Callers: 3}, "bifurcate")
				}
			}
		}
	}
	// getter outage during the first delivery, recovery, same head delivered again
	for _, d := range []uint64{2, 3, 6, 13, 40} {
		for _, R := range []uint64{1, 2, 4} {
			if R >= d {
				continue
			}
			for k := 0; k < 3; k++ {
				for _, fk := range []string{"", "notfound"} {
					mon.Emit(r, "bifurcate", c15P{S: 10, D: d, R: R, Cand: "canonical", FailAt: k, FailKind: fk, Redeliver: true}, "bifurcate")
				}
				mon.Emit(r, "bifurcate", c15P{S: 10, D: d, R: R, Cand: vh.VForgedRightLink, FailAt: k, Redeliver: true}, "bifurcate")
			}
		}
	}
	for _, d := range ds {
		rs := []uint64{1, 2, 3, 5, 16, d - 1}
		if d >= 1000 {
			rs = []uint64{d / 8, d / 3, d - 1}
		}
		for _, R := range rs {
			if R == 0 || R >= d {
				continue
			}
			for _, cand := range cands {
				if cand == vh.VSignedRelink && R != 1 {
					// inside the trust range a signed header is accepted without a link check, so a signed
					// relink has a legitimate verification path unless only adjacent verification succeeds
					continue
				}
				if d > 40 && r.Quick() && rng.Intn(2) == 0 {
					continue
				}
				mon.Emit(r, "bifurcate", c15P{S: 10, D: d, R: R, Cand: cand, FailAt: -1}, "bifurcate")
				// getter failure at each step (sampled for long searches)
				maxSteps := int(d) * (bits.Len64(d) + 2)
				for k := 0; k < maxSteps && k < 12; k++ {
					if d > 12 && rng.Intn(r.N(6, 2)) != 0 {
						continue
					}
					mon.Emit(r, "bifurcate", c15P{S: 10, D: d, R: R, Cand: cand, FailAt: k}, "bifurcate")
				}
			}
		}
	}
	r.Finish()
}

var errGetterDown = errors.New("c15: trusted getter unavailable")

func c15Run(c *mon.Case, p c15P) {
	c.Bubble(func() {
		vh.SetTrustRange(p.R)
		defer vh.SetTrustRange(0)
		vh.SetSoftType(p.Soft)
		defer vh.SetSoftType(false)
		n := int(p.S + p.D)
		chain := regularChain(n, time.Second, time.Second)
		tip := uint64(n)
		if p.Via == "head" {
			tip = p.S // the network has nothing new until the candidate is offered through Head()
		}
		w := newWorld(c, chain, 1, p.S, tip)
		defer w.close()
		recency := 10000 * time.Hour
		if p.Via == "head" {
			recency = time.Nanosecond // every Head() call asks the trusted getter
		}
		if err := w.newSyncer(hsync.WithBlockTime(time.Second), hsync.WithRecencyThreshold(recency), hsync.WithTrustingPeriod(10000*time.Hour), hsync.WithSyncFromHeight(1)); err != nil {
			c.T.Fatalf("syncer: %v", err)
		}
		failed := false
		bound := int(p.D)*(bits.Len64(p.D)+2) + 2
		runaway := false
		base := 0
		w.g.ByHeightFn = func(call int, height uint64) (H, error, bool) {
			if base > 0 {
				if call-base > bound+8 {
					runaway = true
					return nil, errGetterDown, true
				}
				return nil, nil, false
			}
			if call == p.FailAt || (p.FailKind == "notfound-from" && p.FailAt >= 0 && call > p.FailAt && call <= bound+8) {
				failed = true
				if p.FailKind != "" {
					return nil, fmt.Errorf("lagging peer: %w", header.ErrNotFound), true
				}
				return nil, errGetterDown, true
			}
			if call > bound+8 {
				// a search that does not terminate: stop serving so that the case can end, and report it
				runaway = true
				return nil, errGetterDown, true
			}
			return nil, nil, false
		}
		if p.D > 2000 {
			// do not let the sync loop download 10^5 headers: ranges are not served in this case
			w.g.RangeFn = func(int, H, uint64) ([]H, error, bool) { return nil, errGetterDown, true }
		}
		if err := w.start(); err != nil {
			c.Violation("start-fails", fmt.Sprint(err), nil)
			return
		}
		w.settle()
		pre := len(w.g.Calls("byheight"))

		var cand H
		if p.Cand == "canonical" {
			cand = chain.At(p.S + p.D)
		} else {
			cand = chain.Variant(p.Cand, p.S+p.D, 7)
		}
		var verr error
		w.g.setTip(uint64(n))
		if p.Via == "head" {
			// what a contract-abiding Exchange.Head(WithTrustedHead) returns: the head together with its
			// SoftFailure error, nothing for a hard failure
			w.g.HeadFn = func(_ int, trusted H) (H, error) {
				if trusted.IsZero() {
					return chain.At(p.S), nil
				}
				e := header.Verify(trusted, cand)
				if e == nil {
					return cand, nil
				}
				var ve *header.VerifyError
				if errors.As(e, &ve) && ve.SoftFailure {
					return cand, e
				}
				return nil, header.ErrNotFound
			}
			var got H
			var herr error
			if p.Callers > 1 {
				w.g.HeadDelay = 50 * time.Millisecond
				type hres struct {
					h   H
					err error
				}
				outs := make([]hres, p.Callers)
				var cwg sync.WaitGroup
				for k := 0; k < p.Callers; k++ {
					cwg.Add(1)
					go func() {
						defer cwg.Done()
						time.Sleep(time.Duration(k) * 10 * time.Millisecond)
						cctx, cc := context.WithTimeout(context.Background(), time.Hour)
						defer cc()
						h, err := w.syn.Head(cctx)
						outs[k] = hres{h, err}
					}()
				}
				cwg.Wait()
				c.Count("overlapping_head_callers", p.Callers)
				got, herr = outs[0].h, outs[0].err
				for _, o := range outs {
					// the verdict of the group: adopted by anybody = adopted
					if o.err == nil && o.h != nil && o.h.Hash().String() == cand.Hash().String() {
						got, herr = o.h, nil
					}
				}
			} else {
				hctx, hc := context.WithTimeout(context.Background(), time.Hour)
				got, herr = w.syn.Head(hctx)
				hc()
			}
			// via Head() a refusal is not an error: the previous subjective head is returned instead
			if herr != nil {
				verr = herr
			} else if got.Hash().String() != cand.Hash().String() {
				verr = fmt.Errorf("candidate not adopted: Head() returned %v", got)
			}
			w.g.HeadFn = func(_ int, trusted H) (H, error) { return nil, errGetterDown } // no further head requests
		} else {
			ctx, cancel := context.WithTimeout(context.Background(), time.Hour)
			verr = w.sub.deliver(ctx, cand)
			cancel()
		}
		calls := w.g.Calls("byheight")[pre:]
		if runaway {
			c.Violation("search-does-not-terminate/"+fmt.Sprintf("cand=%s", p.Cand), fmt.Sprintf("more than %d getter requests for distance %d without a verdict", bound+8, p.D), nil)
		}
		c.Count("bifurcation_getter_calls", len(calls))
		c.Count("deliveries", 1)

		canonical := p.Cand == "canonical"
		wantAccept := canonical && !failed
		if p.Via == "head" && canonical && p.D <= p.R && !failed {
			wantAccept = true
		}
		outcome := "refused"
		if verr == nil {
			outcome = "accepted"
		}
		steps := "0"
		switch l := len(calls); {
		case l == 0:
		case l <= 2:
			steps = "1-2"
		case l <= 8:
			steps = "3-8"
		default:
			steps = "9+"
		}
		c.Class("d=%s R=%s cand=%s getterfail=%v%s via=%s soft=%v redeliver=%v => %s steps=%s", bucket(p.D), bucket(p.R), p.Cand, failed, p.FailKind, p.Via, p.Soft, p.Redeliver, outcome, steps)
		shape := fmt.Sprintf("cand=%s/getterfail=%v", p.Cand, failed)
		if p.FailKind != "" {
			shape += "/" + p.FailKind
		}
		if p.Via != "" || p.Soft {
			shape += fmt.Sprintf("/via=%s/soft=%v", p.Via, p.Soft)
		}

		if (verr == nil) != wantAccept {
			if verr == nil {
				c.Violation("accepted-without-verifiable-path/"+shape, fmt.Sprintf("candidate %v accepted although no chain of successful verifications exists (d=%d R=%d)", cand, p.D, p.R), nil)
			} else {
				c.Violation("refused-despite-verifiable-path/"+shape, fmt.Sprintf("canonical candidate refused with served intermediates: %v (d=%d R=%d, %d getter calls)", verr, p.D, p.R, len(calls)), nil)
			}
		}
		// bounded search
		if len(calls) > bound {
			c.Violation("search-exceeds-bound/"+shape, fmt.Sprintf("%d getter requests for distance %d (bound %d)", len(calls), p.D, bound), nil)
		}
		for _, gc := range calls {
			if gc.Height < p.S || gc.Height >= p.S+p.D {
				c.Violation("search-outside-interval/"+shape, fmt.Sprintf("requested height %d outside [%d,%d)", gc.Height, p.S, p.S+p.D), nil)
				break
			}
		}
		if p.Redeliver && failed && p.Via == "" && p.FailKind != "notfound-from" && !c.Violated() {
			base = len(w.g.Calls("byheight")) + 1
			ctx, cancel := context.WithTimeout(context.Background(), time.Hour)
			verr2 := w.sub.deliver(ctx, cand)
			cancel()
			calls2 := w.g.Calls("byheight")[base-1:]
			c.Count("redeliveries", 1)
			c.Count("bifurcation_getter_calls", len(calls2))
			shape += "/redelivered"
			if runaway || len(calls2) > bound {
				c.Violation("search-exceeds-bound/"+shape, fmt.Sprintf("%d getter requests for distance %d on redelivery (bound %d)", len(calls2), p.D, bound), nil)
			}
			if (verr2 == nil) != canonical {
				if verr2 == nil {
					c.Violation("accepted-without-verifiable-path/"+shape, fmt.Sprintf("candidate %v accepted on redelivery (d=%d R=%d)", cand, p.D, p.R), nil)
				} else {
					c.Violation("refused-despite-verifiable-path/"+shape, fmt.Sprintf("canonical candidate, refused while the getter was failing, is refused again with a healthy getter: %v (d=%d R=%d, %d getter calls)", verr2, p.D, p.R, len(calls2)), nil)
				}
			}
			verr = verr2
		}
		// what the Syncer now regards as head / sync target
		hctx, hc := context.WithTimeout(context.Background(), time.Minute)
		sh, herr := w.syn.Head(hctx)
		hc()
		if herr != nil {
			c.Violation("syncer-head-fails", fmt.Sprint(herr), nil)
		} else {
			if !chain.Canonical(sh) {
				c.Violation("unverified-header-promoted/"+shape, fmt.Sprintf("Syncer.Head() returns non-canonical %v", sh), nil)
			}
			if verr == nil && sh.Hash().String() != cand.Hash().String() {
				c.Violation("accepted-but-not-target/"+shape, fmt.Sprintf("accepted %v but Syncer.Head() is %v", cand, sh), nil)
			}
			if verr != nil && sh.Hash().String() == cand.Hash().String() {
				c.Violation("refused-but-target/"+shape, fmt.Sprintf("refused %v is the sync target", cand), nil)
			}
		}
		if verr != nil {
			var ve *header.VerifyError
			_ = errors.As(verr, &ve)
		}
		w.settle()
		if p.D <= 2000 && verr == nil {
			// the target must be reached by the sync loop
			if h, err := w.st.Head(context.Background()); err != nil || h.Height() != p.S+p.D {
				c.Violation("accepted-target-not-synced/"+shape, fmt.Sprintf("store head %v (%v), want %d", h, err, p.S+p.D), nil)
			}
		}
		w.storeCheck("store")
		if !canonical {
			if ok, _ := w.st.Has(context.Background(), cand.Hash()); ok {
				c.Violation("refused-candidate-stored/"+shape, "forged candidate is in the store", nil)
			}
		}
	})
}

func bucket(x uint64) string {
	switch {
	case x <= 3:
		return fmt.Sprint(x)
	case x <= 8:
		return "4-8"
	case x <= 40:
		return "9-40"
	case x <= 1000:
		return "41-1000"
	}
	return ">1000"
}
