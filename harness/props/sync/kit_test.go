//go:build verif

package syncprops

import (
	"context"
	"errors"
	"fmt"
	"strings"
	"sync"
	"testing/synctest"
	"time"

	header "github.com/celestiaorg/go-header"
	"github.com/celestiaorg/go-header/store"
	hsync "github.com/celestiaorg/go-header/sync"

	"verifharness/memds"
	"verifharness/mon"
	"verifharness/vh"
)

type H = *vh.Header

// ---- canonical chains are immutable and every bubble starts at the same fake instant: cache them ----

var (
	chainMu    sync.Mutex
	chainCache = map[string]*vh.Chain{}
)

// bubbleEpoch is the instant at which every synctest bubble starts.
var bubbleEpoch = time.Date(2000, 1, 1, 0, 0, 0, 0, time.UTC)

// regularChain returns a chain of n headers spaced by step whose last header is `ago` before the epoch.
func regularChain(n int, step, ago time.Duration) *vh.Chain {
	key := fmt.Sprintf("%d/%d/%d", n, step, ago)
	chainMu.Lock()
	defer chainMu.Unlock()
	if c, ok := chainCache[key]; ok {
		return c
	}
	c := vh.NewChain("sy", vh.Regular(bubbleEpoch.Add(-ago), n, step))
	if len(chainCache) > 64 {
		chainCache = map[string]*vh.Chain{}
	}
	chainCache[key] = c
	return c
}

// ---- scripted, contract-abiding getter ----

type getCall struct {
	Kind    string // head | get | byheight | range
	Height  uint64 // byheight: height; range: from
	To      uint64
	Trusted uint64 // head: height of TrustedHead (0 = none)
	At      time.Duration
	Err     bool
	N       int // range: number of headers returned
}

type getter struct {
	mu    sync.Mutex
	chain *vh.Chain
	tip   uint64 // highest height the network has
	calls []getCall
	t0    time.Time

	// scripts (all optional)
	HeadFn             func(call int, trusted H) (H, error) // overrides Head
	HeadDelay          time.Duration
	HeadBlock          func() bool                                    // true: the request hangs until its context ends
	ByHeightFn         func(call int, height uint64) (H, error, bool) // handled=false => default
	RangeFn            func(call int, from H, to uint64) ([]H, error, bool)
	RangeDelay         func(call int) time.Duration
	nHead, nBy, nRange int
}

func newGetter(chain *vh.Chain, tip uint64) *getter {
	return &getter{chain: chain, tip: tip, t0: time.Now()}
}

func (g *getter) setTip(t uint64) { g.mu.Lock(); g.tip = t; g.mu.Unlock() }

func (g *getter) log(c getCall) {
	c.At = time.Since(g.t0)
	g.calls = append(g.calls, c)
}

func (g *getter) Calls(kind string) []getCall {
	g.mu.Lock()
	defer g.mu.Unlock()
	var out []getCall
	for _, c := range g.calls {
		if kind == "" || c.Kind == kind {
			out = append(out, c)
		}
	}
	return out
}

func (g *getter) Head(ctx context.Context, opts ...header.HeadOption[H]) (H, error) {
	var p header.HeadParams[H]
	for _, o := range opts {
		o(&p)
	}
	g.mu.Lock()
	n := g.nHead
	g.nHead++
	fn, delay := g.HeadFn, g.HeadDelay
	tipH := g.chain.At(g.tip)
	g.mu.Unlock()
	if delay > 0 {
		select {
		case <-time.After(delay):
		case <-ctx.Done():
			g.mu.Lock()
			g.log(getCall{Kind: "head", Trusted: hOf(p.TrustedHead), Err: true})
			g.mu.Unlock()
			return nil, ctx.Err()
		}
	}
	if hb := g.HeadBlock; hb != nil && hb() {
		<-ctx.Done()
		g.mu.Lock()
		g.log(getCall{Kind: "head", Trusted: hOf(p.TrustedHead), Err: true})
		g.mu.Unlock()
		return nil, ctx.Err()
	}
	var h H
	var err error
	if fn != nil {
		h, err = fn(n, p.TrustedHead)
	} else {
		h = tipH
		if !p.TrustedHead.IsZero() {
			// what a contract-abiding Exchange does: verify against the trusted head
			if verr := header.Verify(p.TrustedHead, h); verr != nil {
				var ve *header.VerifyError
				if errors.As(verr, &ve) && ve.SoftFailure {
					err = verr
				} else {
					h, err = nil, header.ErrNotFound
				}
			}
		}
	}
	g.mu.Lock()
	g.log(getCall{Kind: "head", Trusted: hOf(p.TrustedHead), Err: err != nil, Height: hOf(h)})
	g.mu.Unlock()
	return h, err
}

func hOf(h H) uint64 {
	if h == nil {
		return 0
	}
	return h.Height()
}

func (g *getter) Get(ctx context.Context, hash header.Hash) (H, error) {
	g.mu.Lock()
	defer g.mu.Unlock()
	h := g.chain.ByHash(hash)
	g.log(getCall{Kind: "get", Height: hOf(h), Err: h == nil})
	if h == nil || h.Height() > g.tip {
		return nil, header.ErrNotFound
	}
	return h, nil
}

func (g *getter) GetByHeight(ctx context.Context, height uint64) (H, error) {
	g.mu.Lock()
	n := g.nBy
	g.nBy++
	fn := g.ByHeightFn
	tip := g.tip
	g.mu.Unlock()
	var h H
	var err error
	handled := false
	if fn != nil {
		h, err, handled = fn(n, height)
	}
	if !handled {
		if height == 0 || height > tip {
			err = header.ErrNotFound
		} else {
			h = g.chain.At(height)
		}
	}
	if err == nil && ctx.Err() != nil {
		h, err = nil, ctx.Err()
	}
	g.mu.Lock()
	g.log(getCall{Kind: "byheight", Height: height, Err: err != nil})
	g.mu.Unlock()
	return h, err
}

func (g *getter) GetRangeByHeight(ctx context.Context, from H, to uint64) ([]H, error) {
	g.mu.Lock()
	n := g.nRange
	g.nRange++
	fn, dl := g.RangeFn, g.RangeDelay
	tip := g.tip
	g.mu.Unlock()
	if dl != nil {
		if d := dl(n); d > 0 {
			select {
			case <-time.After(d):
			case <-ctx.Done():
				g.mu.Lock()
				g.log(getCall{Kind: "range", Height: from.Height(), To: to, Err: true})
				g.mu.Unlock()
				return nil, ctx.Err()
			}
		}
	}
	var out []H
	var err error
	handled := false
	if fn != nil {
		out, err, handled = fn(n, from, to)
	}
	if !handled {
		out = g.chain.Range(from.Height()+1, min(to, tip+1))
		if len(out) == 0 {
			err = header.ErrNotFound
		}
	}
	if err == nil && ctx.Err() != nil {
		out, err = nil, ctx.Err()
	}
	g.mu.Lock()
	g.log(getCall{Kind: "range", Height: from.Height(), To: to, Err: err != nil, N: len(out)})
	g.mu.Unlock()
	return out, err
}

// ---- subscriber stub capturing the verifier the Syncer registers ----

type subscriber struct {
	mu       sync.Mutex
	verifier func(context.Context, H) error
}

func (s *subscriber) Subscribe() (header.Subscription[H], error) { return nil, errors.New("not used") }
func (s *subscriber) SetVerifier(f func(context.Context, H) error) error {
	s.mu.Lock()
	defer s.mu.Unlock()
	s.verifier = f
	return nil
}

// deliver hands a gossip header to the Syncer exactly as the real Subscriber does.
func (s *subscriber) deliver(ctx context.Context, h H) error {
	s.mu.Lock()
	f := s.verifier
	s.mu.Unlock()
	if f == nil {
		return errors.New("no verifier registered")
	}
	return f(ctx, h)
}

// ---- store proxy between Syncer and Store: online canonical-membership check ----

type appendRec struct {
	Heights []uint64
	Bad     []string // non-canonical headers
	Err     bool
}

type proxyStore struct {
	*store.Store[H]
	mu      sync.Mutex
	chain   *vh.Chain
	appends []appendRec
	onBad   func(h H)
}

func (p *proxyStore) Append(ctx context.Context, hs ...H) error {
	rec := appendRec{}
	for _, h := range hs {
		rec.Heights = append(rec.Heights, hOf(h))
		if !p.chain.Canonical(h) {
			rec.Bad = append(rec.Bad, h.String())
			if p.onBad != nil {
				p.onBad(h)
			}
		}
	}
	err := p.Store.Append(ctx, hs...)
	rec.Err = err != nil
	p.mu.Lock()
	p.appends = append(p.appends, rec)
	p.mu.Unlock()
	return err
}

func (p *proxyStore) Appends() []appendRec {
	p.mu.Lock()
	defer p.mu.Unlock()
	return append([]appendRec(nil), p.appends...)
}

// ---- world ----

type world struct {
	c       *mon.Case
	chain   *vh.Chain
	d       *memds.DS
	st      *store.Store[H]
	ps      *proxyStore
	g       *getter
	sub     *subscriber
	syn     *hsync.Syncer[H]
	started bool
	// tolerateBad lets a test accept a non-canonical header at the store boundary (a signed one that was
	// legitimately adopted non-adjacently)
	tolerateBad func(h H) bool
}

// newWorld creates a store pre-populated with canonical heights [from, to] (none if to == 0).
func newWorld(c *mon.Case, chain *vh.Chain, from, to uint64, tip uint64) *world {
	w := &world{c: c, chain: chain, d: memds.New(), sub: &subscriber{}}
	st, err := store.NewStore[H](w.d, store.WithWriteBatchSize(16))
	if err != nil {
		c.T.Fatalf("store: %v", err)
	}
	w.st = st
	if err := st.Start(context.Background()); err != nil {
		c.T.Fatalf("store start: %v", err)
	}
	if to > 0 {
		hs := chain.Range(from, to+1)
		for len(hs) > 0 {
			n := min(len(hs), 4096)
			if err := st.Append(context.Background(), hs[:n]...); err != nil {
				c.T.Fatalf("store append: %v", err)
			}
			hs = hs[n:]
		}
		ctx, cancel := context.WithTimeout(context.Background(), time.Hour)
		_ = st.Sync(ctx)
		cancel()
	}
	w.ps = &proxyStore{Store: st, chain: chain, onBad: func(h H) {
		if w.tolerateBad != nil && w.tolerateBad(h) {
			return
		}
		c.Violation("stored-non-canonical/append-at-store-boundary", fmt.Sprintf("Syncer appended non-canonical header %v to the Store", h), nil)
	}}
	w.g = newGetter(chain, tip)
	return w
}

func (w *world) newSyncer(opts ...hsync.Option) error {
	syn, err := hsync.NewSyncer[H](w.g, w.ps, w.sub, opts...)
	if err != nil {
		return err
	}
	w.syn = syn
	return nil
}

func (w *world) start() error {
	ctx, cancel := context.WithTimeout(context.Background(), time.Minute)
	defer cancel()
	err := w.syn.Start(ctx)
	if err == nil {
		w.started = true
	}
	return err
}

// quiesce waits until nothing in the bubble can make progress without new input.
func quiesce() {
	synctest.Wait()
	time.Sleep(10 * time.Second)
	synctest.Wait()
}

// settle waits for real quiescence: it keeps advancing virtual time until neither the getter nor the
// store saw any activity during a 10s window (a slow getter keeps a sync alive for many such windows).
func (w *world) settle() {
	for i := 0; i < 400; i++ {
		w.g.mu.Lock()
		n := len(w.g.calls)
		w.g.mu.Unlock()
		h := w.st.Height()
		quiesce()
		w.g.mu.Lock()
		n2 := len(w.g.calls)
		w.g.mu.Unlock()
		if n2 == n && w.st.Height() == h {
			return
		}
	}
	w.c.Inconclusive("no quiescence after 4000s of virtual time")
}

func (w *world) close() {
	if w.started {
		_ = w.syn.Stop(context.Background())
		w.started = false
	}
	synctest.Wait()
	ctx, cancel := context.WithTimeout(context.Background(), time.Hour)
	if err := w.st.Stop(ctx); err != nil && !strings.Contains(err.Error(), "stopped") {
		w.c.Violation("store-stop-fails", fmt.Sprint(err), nil)
	}
	cancel()
	synctest.Wait()
}

// storeAllCanonical checks the raw datastore: every stored header key belongs to the canonical chain,
// and [Tail,Head] is gap-free. Returns heights present.
func (w *world) storeCheck(sig string) {
	ctx, cancel := context.WithTimeout(context.Background(), time.Hour)
	_ = w.st.Sync(ctx)
	cancel()
	for _, k := range w.d.Keys() {
		name := k[strings.LastIndex(k, "/")+1:]
		if len(name) != 64 {
			continue
		}
		var raw []byte
		fmt.Sscanf(name, "%X", &raw)
		if w.chain.ByHash(raw) == nil {
			w.c.Violation(sig+"/non-canonical-header-in-datastore", "a header that is not part of the canonical chain was written to the datastore: key "+k, nil)
		}
	}
	head, herr := w.st.Head(context.Background())
	tail, terr := w.st.Tail(context.Background())
	if herr != nil || terr != nil {
		return
	}
	if tail.Height() > head.Height() || tail.Height() < 1 {
		w.c.Violation(sig+"/tail-head-order", fmt.Sprintf("Tail %d Head %d", tail.Height(), head.Height()), nil)
		return
	}
	if !w.chain.Canonical(head) || !w.chain.Canonical(tail) {
		w.c.Violation(sig+"/non-canonical-head-or-tail", fmt.Sprintf("Tail %v Head %v", tail, head), nil)
	}
	// one run: nothing is stored outside [Tail, Head] (height index keys in the datastore)
	for _, k := range w.d.Keys() {
		name := k[strings.LastIndex(k, "/")+1:]
		if len(name) == 0 || len(name) > 19 || strings.Trim(name, "0123456789") != "" {
			continue
		}
		var h uint64
		fmt.Sscanf(name, "%d", &h)
		if h < tail.Height() || h > head.Height() {
			w.c.Violation(sig+"/stored-header-outside-chain", fmt.Sprintf("height %d is in the datastore but outside [Tail %d, Head %d]: the store is not one run", h, tail.Height(), head.Height()), nil)
			break
		}
	}
	for h := tail.Height(); h <= head.Height(); h++ {
		gctx, gc := context.WithTimeout(context.Background(), 10*time.Millisecond)
		g, err := w.st.GetByHeight(gctx, h)
		gc()
		if err != nil || !w.chain.Canonical(g) || g.Height() != h {
			w.c.Violation(sig+"/gap-or-foreign-header-in-chain", fmt.Sprintf("height %d in [Tail %d, Head %d]: %v %v", h, tail.Height(), head.Height(), g, err), nil)
			return
		}
	}
}
