//go:build verif

package syncprops

import (
	"context"
	"errors"
	"fmt"
	"strings"
	"sync"
	"sync/atomic"
	"testing"
	"time"

	header "github.com/celestiaorg/go-header"
	hsync "github.com/celestiaorg/go-header/sync"

	"verifharness/mon"
	"verifharness/sched"
	"verifharness/vh"
)

// Shared script machinery of C03 (only verified headers are stored) and C07 (the sync completes).

type synStep struct {
	Op   string `json:"op"`             // gossip | burst | head | sleep | getter | quiesce
	Kind string `json:"kind,omitempty"` // gossip: canonical | forged-rightlink | forged-wronglink | wrong-chain | far-future | before-genesis
	DH   int    `json:"dh,omitempty"`   // gossip: height = network tip + DH
	N    int    `json:"n,omitempty"`    // burst: number of concurrent deliveries
	Ms   int    `json:"ms,omitempty"`   // sleep
	Mode string `json:"mode,omitempty"` // getter: ok | error | prefix1 | prefix5 | slow | slow-prefix
}

type synP struct {
	R       uint64    `json:"r"`     // trust range (0 = unlimited)
	Store   int       `json:"store"` // initial store head (tail 1)
	Lag     int       `json:"lag"`   // network tip is Store+Lag at start
	Steps   []synStep `json:"steps"`
	Sched   uint64    `json:"sched"` // PRNG seed for yield-point delays (0 = off)
	TPMin   int       `json:"tp_min"`
	Metrics bool      `json:"metrics,omitempty"` // hsync.WithMetrics()
}

const synBT = time.Second

var synHooks = []string{"sync.syncStore.Append.beforeStore", "sync.setLocalHead.beforePendingAdd", "sync.incomingNetworkHead.afterVerify", "store.flush.begin", "store.flush.afterPendingAppend", "store.flush.afterAdvanceHead"}

var errGetter = errors.New("syn: getter fault")

// what a peer request aborted on the other side looks like: an error wrapping context.Canceled although nobody
// cancelled the Syncer
var errGetterCanceled = fmt.Errorf("syn: peer request aborted: %w", context.Canceled)

func faultOf(mode string) error {
	if mode == "error-canceled" {
		return errGetterCanceled
	}
	return errGetter
}

type synObs struct {
	accepted    []H // deliveries the verifier accepted
	badAccepted []string
	heads       []H // successful Syncer.Head() results
	maxVerified uint64
	errorSeen   bool // State().Error was non-empty at some quiescent point after a getter error
	classes     []string
	tainted     atomic.Bool
	stepBase    int  // index offset of the chunk being run
	lastLearned int  // global index of the last step in which a head above everything known was learned
	sequential  bool // no other delivery is in flight: the verdict of a stale header is decidable
	stopped     bool // the Syncer was stopped by the script
}

type synWorld struct {
	*world
	chain     *vh.Chain
	epoch     time.Time
	total     int
	s0        int
	mode      string
	mmu       sync.Mutex
	ctl       *sched.Ctl
	timewarps map[string]bool
}

func (sw *synWorld) tipNow() uint64 {
	return min(uint64(sw.s0)+uint64(time.Since(sw.epoch)/synBT), uint64(sw.total))
}

func newSynWorld(c *mon.Case, p synP) *synWorld {
	total := p.Store + p.Lag + 600
	// header at height h has time epoch + (h - (Store+Lag)) * bt
	chain := regularChain(total, synBT, -time.Duration(total-(p.Store+p.Lag))*synBT)
	sw := &synWorld{chain: chain, epoch: time.Now(), total: total, s0: p.Store + p.Lag, mode: "ok"}
	sw.world = newWorld(c, chain, 1, uint64(p.Store), uint64(total))
	g := sw.g
	g.HeadFn = func(_ int, trusted H) (H, error) {
		sw.mmu.Lock()
		m := sw.mode
		sw.mmu.Unlock()
		if strings.HasPrefix(m, "error") {
			return nil, faultOf(m)
		}
		return chain.At(sw.tipNow()), nil
	}
	g.ByHeightFn = func(_ int, h uint64) (H, error, bool) {
		sw.mmu.Lock()
		m := sw.mode
		sw.mmu.Unlock()
		if strings.HasPrefix(m, "error") || h == 0 || h > sw.tipNow() {
			return nil, faultOf(m), true
		}
		return chain.At(h), nil, true
	}
	g.RangeDelay = func(int) time.Duration {
		sw.mmu.Lock()
		defer sw.mmu.Unlock()
		if strings.HasPrefix(sw.mode, "slow") {
			return 700 * time.Millisecond
		}
		return 0
	}
	g.RangeFn = func(_ int, from H, to uint64) ([]H, error, bool) {
		sw.mmu.Lock()
		m := sw.mode
		sw.mmu.Unlock()
		if strings.HasPrefix(m, "error") {
			return nil, faultOf(m), true
		}
		if m == "slow-error-once" {
			// this one (slow) request fails; every request issued from now on is served
			sw.setMode("ok")
			c.Count("slow_requests_failed_once", 1)
			return nil, errGetter, true
		}
		out := chain.Range(from.Height()+1, min(to, sw.tipNow()+1))
		if len(out) == 0 {
			return nil, errGetter, true
		}
		switch m {
		case "prefix1":
			out = out[:1]
		case "prefix5", "slow-prefix":
			out = out[:min(5, len(out))]
		}
		return out, nil, true
	}
	return sw
}

func (sw *synWorld) setMode(m string) { sw.mmu.Lock(); sw.mode = m; sw.mmu.Unlock() }

func (sw *synWorld) noteTimewarp(h H) {
	sw.mmu.Lock()
	if sw.timewarps == nil {
		sw.timewarps = map[string]bool{}
	}
	sw.timewarps[string(h.Hash())] = true
	sw.mmu.Unlock()
}

func (sw *synWorld) isTimewarp(h H) bool {
	sw.mmu.Lock()
	defer sw.mmu.Unlock()
	return sw.timewarps[string(h.Hash())]
}

// runSteps executes the script and collects observations.
func (sw *synWorld) runSteps(p synP, obs *synObs) {
	c := sw.c
	deliver := func(h H, kind string) {
		sw.mmu.Lock()
		knownBefore := obs.sequential && sw.chain.Canonical(h) && h.Height() <= obs.maxVerified
		sw.mmu.Unlock()
		ctx, cancel := context.WithTimeout(context.Background(), time.Minute)
		err := sw.sub.deliver(ctx, h)
		cancel()
		c.Count("deliveries", 1)
		if knownBefore && err == nil && !obs.tainted.Load() {
			// a stale or duplicated header (at or below a head that was verified before this delivery started) fails
			// verification: it has to be refused
			c.Violation("known-header-accepted/kind="+kind, fmt.Sprintf("header %v was accepted although height %d had been verified before", h, obs.maxVerified), nil)
		}
		if err == nil && h.Time().After(time.Now().Add(header.VerifClockDrift())) {
			c.Violation("future-header-accepted/kind="+kind, fmt.Sprintf("header %v is %v ahead of the local clock (drift allowance %v) but was accepted", h, time.Until(h.Time()), header.VerifClockDrift()), nil)
		}
		if err == nil {
			sw.mmu.Lock()
			obs.accepted = append(obs.accepted, h)
			if sw.chain.Canonical(h) {
				obs.maxVerified = max(obs.maxVerified, h.Height())
			} else {
				obs.badAccepted = append(obs.badAccepted, kind)
			}
			sw.mmu.Unlock()
			if !sw.chain.Canonical(h) {
				c.Violation("invalid-gossip-accepted/kind="+kind, fmt.Sprintf("verifier returned nil for %s header %v", kind, h), nil)
			}
		}
	}
	mk := func(kind string, height uint64, salt uint64) H {
		if height < 1 {
			height = 1
		}
		if height > uint64(sw.total) {
			height = uint64(sw.total)
		}
		if kind == "canonical" || kind == "canonical-ahead" {
			return sw.chain.At(height)
		}
		return sw.chain.Variant(kind, height, salt)
	}
	for i, st := range p.Steps {
		before := obs.maxVerified
		defer func() {}()
		switch st.Op {
		case "sleep":
			time.Sleep(time.Duration(st.Ms) * time.Millisecond)
		case "getter":
			sw.setMode(st.Mode)
			obs.classes = append(obs.classes, "getter:"+st.Mode)
		case "stop":
			// the Syncer is stopped while the Subscriber keeps delivering: the registered verifier still has to refuse
			// whatever does not verify
			sctx, sc := context.WithTimeout(context.Background(), time.Minute)
			err := sw.syn.Stop(sctx)
			sc()
			if err != nil {
				c.Violation("syncer-stop-fails", fmt.Sprint(err), nil)
				return
			}
			sw.started = false
			obs.stopped = true
			c.Count("syncer_stops", 1)
			obs.classes = append(obs.classes, "stop")
		case "restart":
			sctx, sc := context.WithTimeout(context.Background(), time.Minute)
			err := sw.syn.Stop(sctx)
			sc()
			if err != nil {
				c.Violation("syncer-stop-fails", fmt.Sprint(err), nil)
				return
			}
			sw.started = false
			if err := sw.start(); err != nil {
				c.Violation("syncer-restart-fails", fmt.Sprint(err), nil)
				return
			}
			c.Count("syncer_restarts", 1)
			if h, err := sw.syn.Head(context.Background()); err == nil && sw.chain.Canonical(h) {
				sw.mmu.Lock()
				obs.maxVerified = max(obs.maxVerified, h.Height())
				sw.mmu.Unlock()
			}
			obs.classes = append(obs.classes, "restart")
		case "quiesce":
			sw.settle()
			if sw.syn.State().Error != "" {
				obs.errorSeen = true
			}
		case "head":
			ctx, cancel := context.WithTimeout(context.Background(), time.Minute)
			h, err := sw.syn.Head(ctx)
			cancel()
			c.Count("head_calls", 1)
			if err == nil {
				if !sw.chain.Canonical(h) {
					c.Violation("syncer-head-non-canonical", fmt.Sprintf("Syncer.Head() returned %v", h), nil)
				} else {
					obs.heads = append(obs.heads, h)
					sw.mmu.Lock()
					obs.maxVerified = max(obs.maxVerified, h.Height())
					sw.mmu.Unlock()
				}
			}
			obs.classes = append(obs.classes, fmt.Sprintf("head:%v", err == nil))
		case "gossip":
			hh := int64(sw.tipNow()) + int64(st.DH)
			if st.Kind == "canonical-ahead" {
				hh = int64(sw.tipNow()) + 4 + int64((st.DH+5)*2) // 4..20 block times ahead of the clock
			}
			deliver(mk(st.Kind, uint64(max(hh, 1)), uint64(i)), st.Kind)
			obs.classes = append(obs.classes, "gossip:"+st.Kind)
		case "timewarp":
			// two concurrent deliveries: A = canonical tip+1 and B = signed header at tip+2 linked to A but dated
			// before A. B verifies against the old head (non-adjacent), not against A (unordered time): whatever
			// the order, at most one of them can be accepted.
			tip := sw.tipNow()
			a, b := mk("canonical", tip+1, 0), mk(vh.VTimewarp, tip+2, uint64(i))
			sw.noteTimewarp(b) // may legitimately be adopted (and appended) if it is verified before A arrives
			if sw.ctl != nil {
				sw.ctl.Pause()
			}
			var wg sync.WaitGroup
			var ea, eb error
			wg.Add(2)
			go func() {
				defer wg.Done()
				ctx, cancel := context.WithTimeout(context.Background(), time.Minute)
				ea = sw.sub.deliver(ctx, a)
				cancel()
			}()
			go func() {
				defer wg.Done()
				ctx, cancel := context.WithTimeout(context.Background(), time.Minute)
				eb = sw.sub.deliver(ctx, b)
				cancel()
			}()
			wg.Wait()
			if sw.ctl != nil {
				sw.ctl.Resume()
			}
			c.Count("deliveries", 2)
			c.Count("timewarp_pairs", 1)
			if ea == nil && eb == nil {
				c.Violation("conflicting-heads-both-accepted", fmt.Sprintf("%v and %v were both accepted although the second does not verify against the first", a, b), nil)
			}
			if ea == nil {
				sw.mmu.Lock()
				obs.maxVerified = max(obs.maxVerified, a.Height())
				sw.mmu.Unlock()
			}
			obs.classes = append(obs.classes, fmt.Sprintf("timewarp:%v:%v", ea == nil, eb == nil))
			if eb == nil {
				obs.tainted.Store(true) // B was legitimately adopted non-adjacently: the canonical-only oracles no longer apply
				return
			}
		case "burst":
			obs.sequential = false
			tip := sw.tipNow()
			if sw.ctl != nil {
				sw.ctl.Pause() // concurrent deliveries contend on the Syncer's incoming mutex
			}
			var wg sync.WaitGroup
			for j := 0; j < st.N; j++ {
				kind := "canonical"
				if j == st.N/2 && st.Kind != "" {
					kind = st.Kind
				}
				h := mk(kind, tip-uint64(min(j, int(tip)-1)), uint64(i*31+j))
				wg.Add(1)
				go func() {
					defer wg.Done()
					deliver(h, kind)
				}()
			}
			wg.Wait()
			if sw.ctl != nil {
				sw.ctl.Resume()
			}
			obs.sequential = true
			obs.classes = append(obs.classes, fmt.Sprintf("burst:%d:%s", st.N, st.Kind))
		}
		if obs.maxVerified > before {
			obs.lastLearned = obs.stepBase + i
		}
		if st := sw.syn.State(); len(st.ToHash) > 0 && sw.chain.ByHash(st.ToHash) == nil {
			c.Violation("sync-target-non-canonical", fmt.Sprintf("State().ToHash %X (height %d) is not a canonical header", []byte(st.ToHash), st.ToHeight), nil)
		}
	}
}

func (sw *synWorld) startSyncer(p synP) bool {
	tp := time.Duration(p.TPMin) * time.Minute
	if tp == 0 {
		tp = 10000 * time.Hour
	}
	sopts := []hsync.Option{hsync.WithBlockTime(synBT), hsync.WithTrustingPeriod(tp), hsync.WithSyncFromHeight(1)}
	if p.Metrics {
		sopts = append(sopts, hsync.WithMetrics())
	}
	if err := sw.newSyncer(sopts...); err != nil {
		sw.c.T.Fatalf("syncer: %v", err)
	}
	if err := sw.start(); err != nil {
		sw.c.Violation("start-fails", fmt.Sprint(err), nil)
		return false
	}
	return true
}

var gossipKinds = []string{"canonical", "canonical", "canonical", "canonical-ahead", vh.VForgedRightLink, vh.VForgedWrongLink, vh.VWrongChain, vh.VFarFuture, vh.VBeforeGenesis}

// ---- C03 ----

func TestC03(t *testing.T) {
	r := mon.Open(t, "C03")
	mon.Register(r, "script", c03Run)
	rng := r.Rand("c03")
	modes := []string{"ok", "ok", "error", "prefix1", "prefix5", "slow", "slow-prefix"}
	for i := 0; i < r.N(300, 6000); i++ {
		p := synP{R: []uint64{1, 3, 16, 0}[rng.Intn(4)], Store: 5 + rng.Intn(r.N(40, 150)), Lag: rng.Intn(r.N(60, 200)), Sched: uint64(rng.Intn(1 << 30)), TPMin: []int{0, 0, 5}[rng.Intn(3)], Metrics: i%6 == 5}
		for j := 4 + rng.Intn(r.N(20, 55)); j > 0; j-- {
			switch x := rng.Intn(20); {
			case x < 9:
				p.Steps = append(p.Steps, synStep{Op: "gossip", Kind: gossipKinds[rng.Intn(len(gossipKinds))], DH: rng.Intn(9) - 5})
			case x < 10:
				p.Steps = append(p.Steps, synStep{Op: "burst", N: 2 + rng.Intn(2), Kind: []string{"", vh.VForgedRightLink, vh.VWrongChain}[rng.Intn(3)]})
			case x < 11:
				p.Steps = append(p.Steps, synStep{Op: "timewarp"})
			case x < 13:
				p.Steps = append(p.Steps, synStep{Op: "head"})
			case x < 16:
				p.Steps = append(p.Steps, synStep{Op: "sleep", Ms: []int{1, 300, 1000, 3500, 20000, 400000}[rng.Intn(6)]})
			case x < 19:
				p.Steps = append(p.Steps, synStep{Op: "getter", Mode: modes[rng.Intn(len(modes))]})
			default:
				p.Steps = append(p.Steps, synStep{Op: "quiesce"})
			}
		}
		if i%5 == 4 {
			p.Steps = append(p.Steps, synStep{Op: "quiesce"}, synStep{Op: "stop"},
				synStep{Op: "gossip", Kind: vh.VForgedRightLink, DH: 1}, synStep{Op: "gossip", Kind: vh.VWrongChain, DH: 0}, synStep{Op: "gossip", Kind: vh.VForgedWrongLink, DH: -2})
		}
		mon.Emit(r, "script", p, "script")
	}
	r.Finish()
}

func c03Run(c *mon.Case, p synP) {
	c.Bubble(func() {
		vh.SetTrustRange(p.R)
		defer vh.SetTrustRange(0)
		sw := newSynWorld(c, p)
		defer sw.close()
		ctl := sched.New(p.Sched)
		if p.Sched != 0 {
			ctl.Random(synHooks...)
		}
		defer ctl.Install()()
		sw.ctl = ctl
		if !sw.startSyncer(p) {
			return
		}
		obs := &synObs{sequential: true}
		sw.tolerateBad = func(h H) bool { return h != nil && sw.isTimewarp(h) }
		sw.runSteps(p, obs)
		sw.setMode("ok")
		sw.settle()
		if !obs.tainted.Load() {
			sw.storeCheck("quiescent")
		}
		for _, pt := range synHooks {
			c.Count("hook:"+pt, ctl.Hits()[pt])
		}
		c.HookSig(ctl.Signature())
		// what kinds of events did this script contain
		kinds := map[string]bool{}
		for _, k := range obs.classes {
			kinds[strings.SplitN(k, ":", 3)[0]+":"+strings.SplitN(k+":", ":", 3)[1]] = true
		}
		var ks []string
		for k := range kinds {
			ks = append(ks, k)
		}
		sortStrings(ks)
		c.Class("R=%d tp=%d accepted=%d events=%s", p.R, p.TPMin, min(len(obs.accepted), 3), strings.Join(ks, ","))
	})
}

func sortStrings(s []string) {
	for i := 1; i < len(s); i++ {
		for j := i; j > 0 && s[j] < s[j-1]; j-- {
			s[j], s[j-1] = s[j-1], s[j]
		}
	}
}

// ---- C07 ----

func TestC07(t *testing.T) {
	r := mon.Open(t, "C07")
	mon.Register(r, "script", c07Run)
	rng := r.Rand("c07")
	okModes := []string{"ok", "prefix1", "prefix5", "slow", "slow-prefix"}
	for i := 0; i < r.N(300, 8000); i++ {
		p := synP{R: 0, Store: 5 + rng.Intn(40), Lag: rng.Intn(r.N(150, 400)), Sched: uint64(rng.Intn(1 << 30)), Metrics: i%6 == 5}
		p.Steps = append(p.Steps, synStep{Op: "getter", Mode: okModes[rng.Intn(len(okModes))]})
		nerr := 0
		for j := 3 + rng.Intn(14); j > 0; j-- {
			switch x := rng.Intn(20); {
			case x < 8: // valid heads: adjacent or skipping
				p.Steps = append(p.Steps, synStep{Op: "gossip", Kind: "canonical", DH: -rng.Intn(2)})
			case x < 10:
				p.Steps = append(p.Steps, synStep{Op: "burst", N: 2 + rng.Intn(3)})
			case x < 12:
				p.Steps = append(p.Steps, synStep{Op: "head"})
			case x < 16:
				p.Steps = append(p.Steps, synStep{Op: "sleep", Ms: []int{1, 300, 1000, 2500, 7000, 30000}[rng.Intn(6)]})
			case x < 18 && nerr < 3: // a finite run of getter errors, then serving again
				nerr++
				p.Steps = append(p.Steps, synStep{Op: "getter", Mode: []string{"error", "error", "error-canceled"}[rng.Intn(3)]}, synStep{Op: "sleep", Ms: 1500}, synStep{Op: "gossip", Kind: "canonical"}, synStep{Op: "quiesce"},
					synStep{Op: "getter", Mode: okModes[rng.Intn(len(okModes))]})
			case x == 18 && i%3 == 0: // Stop and Start of the same Syncer: later heads still have to be synced
				p.Steps = append(p.Steps, synStep{Op: "quiesce"}, synStep{Op: "restart"}, synStep{Op: "sleep", Ms: 2500}, synStep{Op: "gossip", Kind: "canonical"})
			default:
				p.Steps = append(p.Steps, synStep{Op: "getter", Mode: okModes[rng.Intn(len(okModes))]})
			}
		}
		mon.Emit(r, "script", p, "script")
	}
	// targeted: a head is learned while a range request is in flight that then fails; every request issued after
	// that head was learned is served, and no further head arrives: the target still has to be reached
	for _, lag := range []int{5, 70} {
		for _, dh := range []int{-1, -2} {
			for _, ms := range []int{100, 300, 600} {
				mon.Emit(r, "script", synP{Store: 10, Lag: lag, Steps: []synStep{{Op: "getter", Mode: "ok"}, {Op: "quiesce"}, {Op: "getter", Mode: "slow-error-once"}, {Op: "sleep", Ms: 3500},
					{Op: "gossip", Kind: "canonical", DH: dh}, {Op: "sleep", Ms: ms}, {Op: "gossip", Kind: "canonical"}}}, "script")
			}
		}
	}
	r.Finish()
}

func c07Run(c *mon.Case, p synP) {
	c.Bubble(func() {
		vh.SetTrustRange(0)
		sw := newSynWorld(c, p)
		defer sw.close()
		ctl := sched.New(p.Sched)
		if p.Sched != 0 {
			ctl.Random(synHooks...)
		}
		defer ctl.Install()()
		sw.ctl = ctl
		if !sw.startSyncer(p) {
			return
		}
		obs := &synObs{lastLearned: -1}
		// Start itself learned the network head
		if h, err := sw.syn.Head(context.Background()); err == nil {
			obs.maxVerified = h.Height()
		}
		// error phases: remember what was stored before, check nothing is lost
		stored := func() (uint64, uint64) {
			h, e1 := sw.st.Head(context.Background())
			t, e2 := sw.st.Tail(context.Background())
			if e1 != nil || e2 != nil {
				return 0, 0
			}
			return t.Height(), h.Height()
		}
		var errPhase bool
		var loBefore, hiBefore uint64
		steps := p.Steps
		for len(steps) > 0 {
			// run up to and including the next quiesce step
			n := 0
			for n < len(steps) && steps[n].Op != "quiesce" {
				if steps[n].Op == "getter" && strings.HasPrefix(steps[n].Mode, "error") && !errPhase {
					sw.settle()
					errPhase = true
					loBefore, hiBefore = stored()
				}
				n++
			}
			chunk := steps[:min(n+1, len(steps))]
			steps = steps[len(chunk):]
			sw.runSteps(synP{Steps: chunk}, obs)
			obs.stepBase += len(chunk)
			if errPhase && len(chunk) > 0 && chunk[len(chunk)-1].Op == "quiesce" {
				// a getter error aborted the attempt: it must be reported and nothing partial lost
				st := sw.syn.State()
				lo, hi := stored()
				target := obs.maxVerified
				if hi < target && st.Error == "" {
					c.Violation("getter-error-not-reported", fmt.Sprintf("store head %d below target %d after a failed attempt, but State().Error is empty (state %+v)", hi, target, st), nil)
				}
				if lo != loBefore || hi < hiBefore {
					c.Violation("partial-progress-lost", fmt.Sprintf("before the failed attempt the store held %d..%d, after it %d..%d", loBefore, hiBefore, lo, hi), nil)
				}
				errPhase = false
			}
		}
		// heads learned while the getter serves (also during a running sync) must be synced without any
		// further head arriving
		lastErr := -1
		for i, st := range p.Steps {
			if st.Op == "getter" && strings.HasPrefix(st.Mode, "error") {
				lastErr = i
			}
		}
		servingSince := -1
		for i, st := range p.Steps {
			if st.Op == "getter" && !strings.HasPrefix(st.Mode, "error") && i > lastErr && servingSince < 0 {
				servingSince = i
			}
		}
		lastHead := obs.lastLearned
		if lastHead >= 0 && servingSince >= 0 && servingSince < lastHead {
			sw.settle()
			if h, err := sw.st.Head(context.Background()); err != nil || h.Height() < obs.maxVerified {
				sig := "head-learned-during-sync-not-synced"
				for _, st := range p.Steps {
					if st.Mode == "slow-error-once" {
						sig = "head-learned-during-failing-attempt-not-synced"
					}
				}
				c.Violation(sig, fmt.Sprintf("highest verified head %d, store head %v (%v) at quiescence although the getter has been serving (since step %d) before that head was learned (step %d); state %+v", obs.maxVerified, h, err, servingSince, lastHead, sw.syn.State()), map[string]any{"getter_calls_tail": tailCalls(sw.g.Calls(""), 12), "now": time.Since(sw.epoch).String()})
			}
			c.Count("checked_without_extra_head", 1)
		}
		// final: the getter serves, one more head is learned, everything must complete
		sw.setMode("ok")
		time.Sleep(1200 * time.Millisecond)
		sw.runSteps(synP{Steps: []synStep{{Op: "gossip", Kind: "canonical"}, {Op: "head"}}}, obs)
		sw.settle()
		target := obs.maxVerified
		c.Count("targets", 1)
		h, err := sw.st.Head(context.Background())
		if err != nil || h.Height() < target {
			c.Violation("target-not-reached", fmt.Sprintf("highest verified head %d, store head %v (%v) at quiescence with a serving getter; state %+v", target, h, err, sw.syn.State()), nil)
		}
		st := sw.syn.State()
		if !st.Finished() {
			c.Violation("state-not-finished", fmt.Sprintf("%+v", st), nil)
		}
		if st.Error != "" {
			c.Violation("state-error-after-successful-sync", st.Error, nil)
		}
		t0 := time.Now()
		wctx, wc := context.WithTimeout(context.Background(), time.Minute)
		werr := sw.syn.SyncWait(wctx)
		wc()
		if werr != nil || time.Since(t0) != 0 {
			c.Violation("syncwait-blocks-or-fails", fmt.Sprintf("SyncWait: %v after %v", werr, time.Since(t0)), nil)
		}
		sw.storeCheck("final")
		for _, pt := range synHooks {
			c.Count("hook:"+pt, ctl.Hits()[pt])
		}
		c.HookSig(ctl.Signature())
		kinds := map[string]bool{}
		for _, k := range obs.classes {
			kinds[k] = true
		}
		var ks []string
		for k := range kinds {
			ks = append(ks, k)
		}
		sortStrings(ks)
		c.Class("lag=%s errs=%v events=%s", bucket(uint64(p.Lag)), obs.errorSeen, strings.Join(ks, ","))
	})
}

func tailCalls(cs []getCall, n int) []string {
	var out []string
	for _, c := range cs[max(0, len(cs)-n):] {
		out = append(out, fmt.Sprintf("%v %s h=%d to=%d trusted=%d err=%v n=%d", c.At, c.Kind, c.Height, c.To, c.Trusted, c.Err, c.N))
	}
	return out
}
