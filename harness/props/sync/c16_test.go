//go:build verif

package syncprops

import (
	"context"
	"encoding/hex"
	"errors"
	"fmt"
	"strings"
	"testing"
	"time"

	header "github.com/celestiaorg/go-header"
	hsync "github.com/celestiaorg/go-header/sync"

	"verifharness/mon"
	"verifharness/vh"
)

// ---- C16: Tail selection and pruning keep the tail within the chain and never crash ----

type c16Cfg struct {
	WindowNs int64  `json:"window_ns"`
	FromH    string `json:"from_h"`    // "" | one | below-tail | mid | store-head | above-store-head | net-head
	FromHash string `json:"from_hash"` // "" | tail | mid | head
	BTNs     int64  `json:"bt_ns"`
	TPNs     int64  `json:"tp_ns"`
}

type c16P struct {
	Chain   string   `json:"chain"`    // regular | dense | irregular | halted | young
	StoreLo int      `json:"store_lo"` // 0 = empty store
	StoreHi int      `json:"store_hi"`
	Net     int      `json:"net"`    // network head height at start (>= StoreHi)
	AgeS    int      `json:"age_s"`  // age of the store head at start, seconds
	Cfgs    []c16Cfg `json:"cfgs"`   // successive (re)configurations, one Syncer run each
	Gossip  int      `json:"gossip"` // gossip deliveries (one new header each, 1 block time apart) per run
	// FailTailFetch: the trusted getter fails the first GetByHeight/Get of each run (the tail fetch): Start may then
	// fail - with an error, not a crash - and must succeed when called again
	FailTailFetch bool `json:"fail_tail_fetch,omitempty"`
	// ForgedKnown: after the honest gossip, a signed header for an already known height, dated 3 h later, is
	// delivered: it must be refused and must not move the tail
	ForgedKnown bool `json:"forged_known,omitempty"`
	// FailRanges: the first FailRanges range requests below the stored tail (moving the tail down) of every run fail (a getter within its contract: errors only
	// delay). Start may fail with that error; whatever it returns, the store must stay one gap-free chain, and once
	// the getter serves again a further Start has to succeed.
	FailRanges int `json:"fail_ranges,omitempty"`
}

const c16Spacing = 6 * time.Second

// c16Times builds header times: heights 1..net end at the epoch (fresh head), later heights continue into
// the future with regular spacing (they become "now" as virtual time passes).
func c16Times(kind string, net, future int, storeHi int, age time.Duration, seed uint64) []time.Time {
	ts := make([]time.Time, net+future)
	t := bubbleEpoch
	for i := net; i < net+future; i++ { // future part
		ts[i] = bubbleEpoch.Add(time.Duration(i-net+1) * c16Spacing)
	}
	x := seed*2862933555777941757 + 3037000493
	for i := net - 1; i >= 0; i-- {
		ts[i] = t
		step := c16Spacing
		switch kind {
		case "dense":
			step = c16Spacing / 2
		case "dense6":
			step = c16Spacing / 6
		case "irregular":
			x = x*6364136223846793005 + 1442695040888963407
			step = c16Spacing/2 + time.Duration((x>>33)%uint64(9*c16Spacing/2))
		case "halted":
			if i == net-4 {
				step = 5 * time.Hour
			}
		case "young":
			step = time.Second
		case "bursty": // full block time in the old part, a fast burst near the head: every spacing <= block time
			if i >= net-40 {
				step = time.Second
			}
		}
		if i == storeHi && age > 0 { // the store head is `age` older than its successor
			step += age
		}
		t = t.Add(-step)
	}
	return ts
}

func TestC16(t *testing.T) {
	r := mon.Open(t, "C16")
	mon.Register(r, "tail", c16Run)
	windows := []int64{0, 1, 50, int64(time.Minute), int64(2 * time.Minute), int64(5 * time.Minute), int64(10 * time.Minute), int64(15 * time.Minute), int64(time.Hour), int64(337 * time.Hour)}
	bts := []int64{0, 1, int64(c16Spacing)}
	tps := []int64{int64(time.Hour), int64(336 * time.Hour)}
	fromHs := []string{"", "", "", "one", "below-tail", "mid", "store-head", "above-store-head", "net-head"}
	fromHashes := []string{"", "", "", "", "tail", "mid", "head"}
	chains := []string{"regular", "dense", "dense6", "irregular", "halted", "young", "bursty"}
	rng := r.Rand("c16")
	pick := func() c16Cfg {
		for {
			cfg := c16Cfg{WindowNs: windows[rng.Intn(len(windows))], FromH: fromHs[rng.Intn(len(fromHs))], FromHash: fromHashes[rng.Intn(len(fromHashes))], BTNs: bts[rng.Intn(len(bts))], TPNs: tps[rng.Intn(len(tps))]}
			if cfg.WindowNs == 0 && cfg.FromH == "" && cfg.FromHash == "" {
				continue // rejected by Validate
			}
			return cfg
		}
	}
	// systematic single-run grid over window x block time x chain kind (window policy only)
	for _, ch := range chains {
		for _, w := range windows[1:] {
			for _, bt := range bts {
				for _, empty := range []bool{false, true} {
					p := c16P{Chain: ch, StoreLo: 20, StoreHi: 200, Net: 230, AgeS: 120, Gossip: 2, Cfgs: []c16Cfg{{WindowNs: w, BTNs: bt, TPNs: tps[1]}}}
					if empty {
						p.StoreLo, p.StoreHi = 0, 0
					}
					mon.Emit(r, "tail", p, "tail")
					if !empty {
						// the store head is the network head's predecessor (no extra age): retention is decidable
						p2 := c16P{Chain: ch, StoreLo: 5, StoreHi: 229, Net: 230, AgeS: 0, Gossip: 3, Cfgs: []c16Cfg{{WindowNs: w, BTNs: bt, TPNs: tps[1]}, {WindowNs: w, BTNs: bt, TPNs: tps[1]}}}
						mon.Emit(r, "tail", p2, "tail")
					}
				}
			}
		}
	}
	// first start on an empty store with the network head exactly as high as the trusting period holds block times
	for _, ch := range []string{"regular", "halted"} {
		for _, d := range []int64{-1, 0, 1} {
			for _, net := range []int{100, 230} {
				tp := (int64(net) + d) * int64(c16Spacing)
				mon.Emit(r, "tail", c16P{Chain: ch, Net: net, Gossip: 1, Cfgs: []c16Cfg{{WindowNs: int64(time.Hour), BTNs: int64(c16Spacing), TPNs: tp}}}, "tail")
			}
		}
	}
	// the tail fetch fails once (empty and populated stores); a forged header for a known height with a later date
	for _, ch := range []string{"regular", "dense"} {
		for _, w := range []int64{int64(5 * time.Minute), int64(time.Hour)} {
			for _, empty := range []bool{true, false} {
				p := c16P{Chain: ch, StoreLo: 20, StoreHi: 200, Net: 230, AgeS: 0, Gossip: 1, FailTailFetch: true, Cfgs: []c16Cfg{{WindowNs: w, BTNs: int64(c16Spacing), TPNs: tps[1]}, {WindowNs: w, FromH: "mid", BTNs: int64(c16Spacing), TPNs: tps[1]}}}
				if empty {
					p.StoreLo, p.StoreHi = 0, 0
				}
				mon.Emit(r, "tail", p, "tail")
				p.FailTailFetch, p.ForgedKnown = false, true
				mon.Emit(r, "tail", p, "tail")
			}
		}
	}
	// the tail is moved down by more than one range request (64 headers) across a restart
	for _, lo := range []int{70, 100, 150, 200} {
		for _, fh := range []string{"below-tail", "one"} {
			for _, w := range []int64{0, int64(337 * time.Hour)} {
				mon.Emit(r, "tail", c16P{Chain: "regular", StoreLo: lo, StoreHi: lo + 100, Net: lo + 110, AgeS: 0, Gossip: 1, Cfgs: []c16Cfg{{WindowNs: w, FromH: fh, BTNs: int64(c16Spacing), TPNs: tps[1]}}}, "tail")
				mon.Emit(r, "tail", c16P{Chain: "regular", StoreLo: lo, StoreHi: lo + 100, Net: lo + 110, AgeS: 0, Gossip: 1, Cfgs: []c16Cfg{{WindowNs: w, FromH: "mid", BTNs: int64(c16Spacing), TPNs: tps[1]}, {WindowNs: w, FromH: fh, BTNs: int64(c16Spacing), TPNs: tps[1]}}}, "tail")
				// ... while the first one or two range requests of the run fail (the move is interrupted part-way)
				for _, fr := range []int{1, 2} {
					mon.Emit(r, "tail", c16P{Chain: "regular", StoreLo: lo, StoreHi: lo + 100, Net: lo + 110, AgeS: 0, Gossip: fr + 1, FailRanges: fr, Cfgs: []c16Cfg{{WindowNs: w, FromH: fh, BTNs: int64(c16Spacing), TPNs: tps[1]}, {WindowNs: w, FromH: "mid", BTNs: int64(c16Spacing), TPNs: tps[1]}, {WindowNs: w, FromH: fh, BTNs: int64(c16Spacing), TPNs: tps[1]}}}, "tail")
				}
			}
		}
	}
	// a short store (15 headers) whose tail is moved down while both range requests of the move fail: the case in
	// which the force-appended new tail is left behind as a stray header (known finding, DESIGN 6.2)
	mon.Emit(r, "tail", c16P{Chain: "regular", StoreLo: 26, StoreHi: 40, Net: 83, AgeS: 10800, Gossip: 3, FailRanges: 2, Cfgs: []c16Cfg{{WindowNs: int64(time.Hour), FromH: "below-tail", TPNs: tps[1]}, {WindowNs: 50, FromH: "one", BTNs: 1, TPNs: tps[0]}}}, "tail")
	// catch-up after downtime on a chain denser than the block time: the store head lies between the estimate
	// (head - window/blockTime) and the true window start (head - window/spacing), the old tail far behind
	for _, ch := range []struct {
		kind string
		s    time.Duration
	}{{"dense", c16Spacing / 2}, {"dense6", c16Spacing / 6}} {
		for _, w := range []time.Duration{5 * time.Minute, 10 * time.Minute, 15 * time.Minute} {
			lo, hi := int(w/c16Spacing), int(w/ch.s)
			for _, lag := range []int{lo + 1, lo + (hi-lo)/3, (lo + hi) / 2, hi - 1} {
				storeHi := 5 + hi + 50
				mon.Emit(r, "tail", c16P{Chain: ch.kind, StoreLo: 5, StoreHi: storeHi, Net: storeHi + lag, AgeS: 0, Gossip: 1, Cfgs: []c16Cfg{{WindowNs: int64(w), BTNs: int64(c16Spacing), TPNs: tps[1]}}}, "tail")
			}
		}
	}
	for i := 0; i < r.N(350, 20000); i++ {
		p := c16P{Chain: chains[rng.Intn(len(chains))], Gossip: rng.Intn(3)}
		if rng.Intn(5) != 0 {
			p.StoreLo = 1 + rng.Intn(60)
			p.StoreHi = p.StoreLo + 5 + rng.Intn(250)
		}
		p.Net = max(p.StoreHi, 10) + rng.Intn(120)
		p.AgeS = []int{0, 30, 600, 7200, 3 * 3600}[rng.Intn(5)]
		for n := 1 + rng.Intn(r.N(3, 4)); n > 0; n-- {
			p.Cfgs = append(p.Cfgs, pick())
		}
		if i%6 == 3 {
			// failing range requests (not drawn from the PRNG: the other cases stay what they were)
			p.FailRanges = 1 + i%2
			p.Gossip = max(p.Gossip, p.FailRanges+1)
		}
		mon.Emit(r, "tail", p, "tail")
	}
	r.Finish()
}

func c16Run(c *mon.Case, p c16P) {
	c.Bubble(func() {
		vh.SetTrustRange(0)
		future := 600 // 1 h of future headers: enough for every script (each settle costs 10-20s of virtual time)
		times := c16Times(p.Chain, p.Net, future, p.StoreHi, time.Duration(p.AgeS)*time.Second, uint64(p.Net*131+p.StoreHi))
		chain := vh.NewChain("sy", times)
		epoch := time.Now()
		tipNow := func() uint64 { return uint64(p.Net) + min(uint64(time.Since(epoch)/c16Spacing), uint64(future)) }
		w := newWorld(c, chain, uint64(max(p.StoreLo, 1)), uint64(p.StoreHi), uint64(p.Net))
		defer w.close()
		w.g.HeadFn = nil
		serveUpTo := func(h uint64) bool { return h >= 1 && h <= tipNow() }
		failNext := false
		w.g.ByHeightFn = func(_ int, h uint64) (H, error, bool) {
			if failNext {
				failNext = false
				return nil, fmt.Errorf("c16: trusted peers unavailable"), true
			}
			if !serveUpTo(h) {
				return nil, fmt.Errorf("no such height %d", h), true
			}
			return chain.At(h), nil, true
		}
		failRanges := 0
		failBelow := uint64(0)
		w.g.RangeFn = func(_ int, from H, to uint64) ([]H, error, bool) {
			// only requests that fill in below the stored chain (the tail being moved down) are failed: the sync loop's
			// catch-up requests above the head run concurrently with Start, and which of the two came first would
			// depend on goroutine scheduling
			if failRanges > 0 && from.Height() < failBelow {
				failRanges--
				c.Count("range_requests_failed_by_injection", 1)
				return nil, fmt.Errorf("c16: range request failed"), true
			}
			out := chain.Range(from.Height()+1, min(to, tipNow()+1))
			if len(out) == 0 {
				return nil, fmt.Errorf("nothing above %d", from.Height()), true
			}
			return out, nil, true
		}
		spacedWithinBT := func(bt int64) bool {
			return bt > 0 && ((p.Chain == "regular" || p.Chain == "bursty") && bt >= int64(c16Spacing) || p.Chain == "dense" && bt >= int64(c16Spacing/2) || p.Chain == "dense6" && bt >= int64(c16Spacing/6) || p.Chain == "young" && bt >= int64(time.Second)) && p.AgeS == 0
		}
		var classes []string
		for run, cfg := range p.Cfgs {
			w.g.setTip(tipNow())
			// resolve symbolic parameters against the store as it is now
			head, herr := w.st.Head(context.Background())
			tail, terr := w.st.Tail(context.Background())
			var opts []hsync.Option
			opts = append(opts, hsync.WithPruningWindow(time.Duration(cfg.WindowNs)), hsync.WithTrustingPeriod(time.Duration(cfg.TPNs)))
			if cfg.BTNs > 0 {
				opts = append(opts, hsync.WithBlockTime(time.Duration(cfg.BTNs)))
			}
			lo, hi := uint64(1), tipNow()
			if herr == nil && terr == nil {
				lo, hi = tail.Height(), head.Height()
			}
			var fromH uint64
			switch cfg.FromH {
			case "one":
				fromH = 1
			case "below-tail":
				fromH = max(1, lo/2)
			case "mid":
				fromH = (lo + hi) / 2
			case "store-head":
				fromH = hi
			case "above-store-head":
				fromH = (hi + tipNow() + 1) / 2
			case "net-head":
				fromH = tipNow()
			}
			if fromH > 0 {
				opts = append(opts, hsync.WithSyncFromHeight(fromH))
			}
			var hashH uint64
			switch cfg.FromHash {
			case "tail":
				hashH = lo
			case "mid":
				hashH = (lo + hi) / 2
			case "head":
				hashH = hi
			}
			if hashH > 0 {
				opts = append(opts, hsync.WithSyncFromHash(hex.EncodeToString(chain.At(hashH).Hash())))
			}
			policy := "window"
			if hashH > 0 {
				policy = "hash:" + cfg.FromHash
			} else if fromH > 0 {
				policy = "height:" + cfg.FromH
				if herr == nil && fromH > hi+1 {
					policy = "height:beyond-store-head+1"
				}
			}
			btc := map[bool]string{true: "bt=0", false: "bt>0"}[cfg.BTNs == 0]
			if cfg.BTNs == 1 {
				btc = "bt=1ns"
			}
			wc := "w=0"
			switch {
			case cfg.WindowNs > int64(time.Hour):
				wc = "w>1h"
			case cfg.WindowNs >= int64(5*time.Minute):
				wc = "w=5min..1h"
			case cfg.WindowNs >= int64(time.Minute):
				wc = "w=1-2min"
			case cfg.WindowNs > 0:
				wc = "w=ns"
			}
			storeState := "populated"
			if herr != nil {
				storeState = "empty"
			}
			shape := fmt.Sprintf("%s/store=%s", policy, storeState)
			_ = run
			classes = append(classes, policy+"/"+wc+"/"+btc)
			c.Count("syncer_runs", 1)

			// what was stored before this run (for the retention clause)
			before := map[uint64]bool{}
			if herr == nil && terr == nil {
				for h := lo; h <= hi; h++ {
					before[h] = true
				}
			}
			if err := w.newSyncer(opts...); err != nil {
				c.Violation("accepted-params-rejected/"+shape, fmt.Sprint(err), nil)
				return
			}
			failNext = p.FailTailFetch
			failRanges = p.FailRanges
			failBelow = 0
			if terr == nil {
				failBelow = tail.Height()
			}
			err := w.start()
			if err != nil && p.FailRanges > 0 && failRanges < p.FailRanges {
				// injected range failures were consumed: an error is acceptable, a gap in the store is not
				c.Count("starts_failed_by_injected_range_error", 1)
				shape += "/retry-after-range-error"
				w.settle() // the forced append of the new tail is queued for the store's flush loop: let it land
				w.storeCheck("structure-after-start-failed-by-range-error")
				failRanges = 0
				err = w.start()
			}
			if err != nil && p.FailTailFetch && !failNext {
				// the injected failure was consumed: an error is the right answer; the next attempt has to work
				c.Count("starts_failed_by_injected_getter_error", 1)
				shape += "/retry-after-getter-error"
				err = w.start()
			}
			failNext = false
			if err != nil {
				c.Violation("start-fails/"+shape, fmt.Sprintf("Start with an honest, fully serving getter: %v", err), nil)
				return
			}
			w.settle()
			// retention right after the first tail computation of the run (later the dense old part ages out)
			retention := func(tag string) {
				if policy != "window" || !spacedWithinBT(cfg.BTNs) {
					return
				}
				hctx, hc := context.WithTimeout(context.Background(), time.Minute)
				shNow, herr := w.syn.Head(hctx)
				hc()
				nh, nherr := w.st.Head(context.Background())
				nt, nterr := w.st.Tail(context.Background())
				if herr != nil || nherr != nil || nterr != nil {
					return
				}
				cut := shNow.Time().Add(-time.Duration(cfg.WindowNs))
				for h := range before {
					if chain.At(h).Time().After(cut) && (h < nt.Height() || h > nh.Height()) {
						c.Violation("young-header-pruned/"+shape, fmt.Sprintf("%s: height %d (time %v) is younger than head time %v minus window %v but is no longer stored (Tail %d)", tag, h, chain.At(h).Time(), shNow.Time(), time.Duration(cfg.WindowNs), nt.Height()), nil)
						break
					}
				}
				c.Count("retention_checks", 1)
			}
			retention("after Start")
			for g := 0; g < p.Gossip; g++ {
				time.Sleep(c16Spacing)
				w.g.setTip(tipNow())
				ctx, cancel := context.WithTimeout(context.Background(), time.Minute)
				nh := chain.At(tipNow())
				known := false
				if sh0, e0 := w.syn.Head(ctx); e0 == nil && sh0.Height() >= nh.Height() {
					known = true // nothing newer than what the Syncer already has: not a valid *new* head
				}
				err := w.sub.deliver(ctx, nh)
				cancel()
				if err != nil && !known && !errors.Is(err, header.ErrKnownHeader) {
					c.Violation("gossip-refused/"+shape, fmt.Sprintf("valid adjacent network head %d refused: %v", tipNow(), err), nil)
				}
				w.settle()
				retention(fmt.Sprintf("after gossip #%d", g+1))
			}
			if p.ForgedKnown {
				if st0, e0 := w.st.Head(context.Background()); e0 == nil && st0.Height() > 3 {
					t0, _ := w.st.Tail(context.Background())
					base := chain.At(st0.Height() - 2)
					forged := (&vh.Header{Chain: base.Chain, H: base.H, T: time.Now().Add(3 * time.Hour).UnixNano(), Prev: base.Prev, Nonce: 0xF0F0, Signed: true}).Seal()
					ctx, cancel := context.WithTimeout(context.Background(), time.Minute)
					ferr := w.sub.deliver(ctx, forged)
					cancel()
					w.settle()
					c.Count("forged_known_height_deliveries", 1)
					if ferr == nil {
						c.Violation("forged-known-height-header-accepted/"+shape, fmt.Sprintf("%v (store head %d) was accepted", forged, st0.Height()), nil)
					}
					if t1, e1 := w.st.Tail(context.Background()); e1 != nil || t0 == nil || t1.Height() != t0.Height() {
						c.Violation("forged-known-height-header-moved-the-tail/"+shape, fmt.Sprintf("Tail %v before, %v (%v) after the refused delivery of %v", t0, t1, e1, forged), nil)
					}
				}
			}
			w.g.setTip(tipNow())
			hctx, hc := context.WithTimeout(context.Background(), time.Minute)
			sh, err := w.syn.Head(hctx)
			hc()
			if err != nil {
				c.Violation("head-fails/"+shape, fmt.Sprintf("Syncer.Head(): %v", err), nil)
			} else if !chain.Canonical(sh) {
				c.Violation("head-foreign/"+shape, fmt.Sprint(sh), nil)
			}
			w.settle()
			// structure
			w.storeCheck("structure/" + shape)
			nh, nherr := w.st.Head(context.Background())
			nt, nterr := w.st.Tail(context.Background())
			if nherr != nil || nterr != nil {
				c.Violation("empty-after-run/"+shape, fmt.Sprintf("Head err %v, Tail err %v", nherr, nterr), nil)
			} else {
				if nt.Height() < 1 || nt.Height() > nh.Height() {
					c.Violation("tail-outside-chain/"+shape, fmt.Sprintf("Tail %d Head %d", nt.Height(), nh.Height()), nil)
				}
				// the Syncer's own head is never behind what it has stored
				if sh != nil && sh.Height() < nh.Height() {
					c.Violation("syncer-head-below-store-head/"+shape, fmt.Sprintf("Syncer.Head() %d, store head %d at quiescence", sh.Height(), nh.Height()), nil)
				}
				// no wedge: with an honest getter the store reaches the newest head the Syncer learned
				if sh != nil && nh.Height() < sh.Height() {
					c.Violation("wedged-below-network-head/"+shape, fmt.Sprintf("store head %d, Syncer.Head() %d at quiescence", nh.Height(), sh.Height()), nil)
				}
				// retention: only when the window policy decides and headers are spaced by at most the block time
				if policy == "window" && spacedWithinBT(cfg.BTNs) && sh != nil {
					cut := sh.Time().Add(-time.Duration(cfg.WindowNs))
					for h := range before {
						if chain.At(h).Time().After(cut) && (h < nt.Height() || h > nh.Height()) {
							c.Violation("young-header-pruned/"+shape, fmt.Sprintf("height %d (time %v) is younger than head time %v minus window %v but is no longer stored (Tail %d)", h, chain.At(h).Time(), sh.Time(), time.Duration(cfg.WindowNs), nt.Height()), nil)
							break
						}
					}
				}
			}
			_ = w.syn.Stop(context.Background())
			w.started = false
			w.settle()
			if c.Violated() {
				break
			}
		}
		c.Class("chain=%s store=%v age=%d gossip=%d runs=%s", p.Chain, p.StoreHi > 0, p.AgeS, p.Gossip, strings.Join(classes, " -> "))
	})
}
