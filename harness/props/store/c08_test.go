//go:build verif

package storeprops

import (
	"context"
	"errors"
	"fmt"
	"testing"
	"testing/synctest"
	"time"

	header "github.com/celestiaorg/go-header"
	"github.com/celestiaorg/go-header/store"

	"verifharness/memds"
	"verifharness/mon"
	"verifharness/vh"
)

// ---- C08: DeleteRange removes exactly the requested end of the chain, permanently ----

// mix describes how a store is populated before the operation under test.
type mix struct {
	Cfg     Cfg   `json:"cfg"`
	T0      int   `json:"t0"`      // first height
	Batches []int `json:"batches"` // sizes of consecutive Append calls (ascending heights)
	Restart bool  `json:"restart"` // restart after populating (flushes everything)
	Par     int   `json:"par"`     // >0: parallel-delete threshold override
	Reader  bool  `json:"reader"`  // an OnDelete handler reads the header being deleted (by height and by hash)
	// Appender: on its first call an OnDelete handler appends a header that is already stored and lies outside the
	// range (the tail header during a head-side deletion, the head header during a tail-side one) and waits for Sync:
	// the flush loop runs (advanceHead / recedeTail) in the middle of the deletion
	Appender bool `json:"appender,omitempty"`
	// AppendNew (with Appender): during a head-side deletion the handler appends the header right above the old
	// head instead (new, outside the range, stored beyond the gap the deletion leaves): it must not get lost
	AppendNew bool `json:"append_new,omitempty"`
}

func (m mix) n() int {
	n := 0
	for _, b := range m.Batches {
		n += b
	}
	return n
}

type c08P struct {
	Mix  mix    `json:"mix"`
	From uint64 `json:"from"`
	To   uint64 `json:"to"`
	// fault injection (kind "partial")
	Fault string `json:"fault,omitempty"` // "" | write@k | heightkey@k | hashkey@k | deadline@k | commit
	K     int    `json:"k,omitempty"`
}

// populate builds the store of a mix; returns false if the configuration was not accepted.
func (e *env) populate(m mix) bool {
	c := e.c
	if err := e.open(); err != nil {
		c.Class("config-not-accepted %s", m.Cfg)
		c.Trivial()
		return false
	}
	if err := e.start(); err != nil {
		c.Violation("start-fails-on-empty", fmt.Sprint(err), nil)
		return false
	}
	h := uint64(m.T0)
	for _, b := range m.Batches {
		var hs []uint64
		for i := 0; i < b; i++ {
			hs = append(hs, h)
			h++
		}
		if err := e.appendHs(hs...); err != nil {
			c.Violation("append-fails", fmt.Sprint(err), nil)
			return false
		}
		if err := e.sync(); err != nil {
			c.Violation("sync-fails", fmt.Sprint(err), nil)
			return false
		}
	}
	if m.Reader {
		e.st.OnDelete(func(ctx context.Context, h uint64) error {
			if g, err := e.st.GetByHeight(ctx, h); err == nil {
				_, _ = e.st.Get(ctx, g.Hash())
				_, _ = e.st.Has(ctx, g.Hash())
			}
			return nil
		})
	}
	if m.Appender {
		first := true
		e.st.OnDelete(func(ctx context.Context, h uint64) error {
			if !first {
				return nil
			}
			first = false
			hd, herr := e.st.Head(ctx)
			tl, terr := e.st.Tail(ctx)
			if herr != nil || terr != nil {
				return nil
			}
			var x *vh.Header
			switch {
			case h > tl.Height() && m.AppendNew:
				top := uint64(0)
				for k := range e.P {
					top = max(top, k)
				}
				x = e.chain.At(top + 1)
				if x == nil {
					return nil
				}
				e.newDuring = x.Height()
			case h > tl.Height():
				x = tl // head-side deletion: the tail is outside the range
			case hd.Height() > h:
				x = hd // tail-side deletion (for a whole-chain deletion the head goes later in the same call)
			default:
				return nil
			}
			if err := e.st.Append(ctx, x); err != nil {
				return nil
			}
			_ = e.st.Sync(ctx)
			c.Count("appends_from_inside_a_handler", 1)
			return nil
		})
	}
	if m.Restart {
		if err := e.stop(); err != nil {
			c.Violation("stop-fails", fmt.Sprint(err), nil)
			return false
		}
		if err := e.start(); err != nil {
			c.Violation("restart-fails", fmt.Sprint(err), nil)
			return false
		}
	}
	return true
}

type snap struct {
	head, tail   string
	hH, tH       uint64
	empty        bool
	byHeight     map[uint64]bool
	byHash       map[uint64]bool
	keys         []string
	unflushedAny map[uint64]bool // heights with no raw hash key (only in the pending batch)
	onDisk       map[uint64]bool // heights with both raw keys present
}

func (e *env) snapshot() snap {
	s := snap{byHeight: map[uint64]bool{}, byHash: map[uint64]bool{}, unflushedAny: map[uint64]bool{}, onDisk: map[uint64]bool{}}
	head, tail, herr, terr := e.headTail()
	if herr != nil || terr != nil {
		s.empty = true
	} else {
		s.head, s.tail, s.hH, s.tH = string(head.Hash()), string(tail.Hash()), head.Height(), tail.Height()
	}
	bg := context.Background()
	for h := uint64(1); h <= e.chain.Len(); h++ {
		g, err := e.getByHeight(h)
		s.byHeight[h] = err == nil && g != nil && g.Height() == h
		g2, err := e.st.Get(bg, e.chain.At(h).Hash())
		s.byHash[h] = err == nil && g2 != nil && g2.Height() == h
		hk, ik := e.rawKeysFor(h)
		if !hk && e.P[h] {
			s.unflushedAny[h] = true
		}
		s.onDisk[h] = hk && ik
	}
	s.keys = e.d.Keys()
	return s
}

func sameKeys(a, b []string) bool {
	if len(a) != len(b) {
		return false
	}
	for i := range a {
		if a[i] != b[i] {
			return false
		}
	}
	return true
}

// rangeClass classifies (from,to) against Tail T and Head H per the property statement.
func rangeClass(from, to, T, H uint64) (class string, valid bool) {
	switch {
	case from >= to:
		return "invalid/empty-or-reversed", false
	case from == T && to == H+1:
		return "whole", true
	case from == T && to <= H:
		return "prefix", true
	case to == H+1 && from > T:
		return "suffix", true
	case to <= T || from > H:
		return "invalid/outside", false
	case from < T:
		return "invalid/starts-below-tail", false
	case to > H+1:
		return "invalid/ends-above-head", false
	default:
		return "invalid/middle", false
	}
}

// absent checks that no header of [from,to) is retrievable and no raw key remains.
func (e *env) absent(from, to uint64, sigPrefix string, unfl map[uint64]bool) {
	bg := context.Background()
	if e.coarse {
		for h := from; h < to; h++ {
			_, err1 := e.getByHeight(h)
			_, err2 := e.st.Get(bg, e.chain.At(h).Hash())
			hk, ik := e.rawKeysFor(h)
			if err1 == nil || err2 == nil || hk || ik {
				e.c.Violation(sigPrefix+"/header-left-behind", fmt.Sprintf("height %d of the deleted range [%d,%d) is still there: by height %v, by hash %v, hash key %v, height key %v", h, from, to, err1 == nil, err2 == nil, hk, ik), nil)
			}
		}
		return
	}
	for h := from; h < to; h++ {
		st := "flushed"
		if unfl[h] {
			st = "unflushed"
		}
		if g, err := e.getByHeight(h); err == nil {
			e.c.Violation(sigPrefix+"/still-readable-by-height/"+st, fmt.Sprintf("GetByHeight(%d) returned %v after DeleteRange(%d,%d) returned nil", h, g, from, to), nil)
		}
		if g, err := e.st.Get(bg, e.chain.At(h).Hash()); err == nil {
			e.c.Violation(sigPrefix+"/still-readable-by-hash/"+st, fmt.Sprintf("Get(hash of %d) returned %v after DeleteRange(%d,%d) returned nil", h, g, from, to), nil)
		}
		if ok, _ := e.st.Has(bg, e.chain.At(h).Hash()); ok {
			e.c.Violation(sigPrefix+"/has-true/"+st, fmt.Sprintf("Has(hash of %d) true after DeleteRange(%d,%d)", h, from, to), nil)
		}
		if hk, ik := e.rawKeysFor(h); hk || ik {
			e.c.Violation(sigPrefix+"/raw-key-remains/"+st, fmt.Sprintf("datastore still holds a key of height %d (hash key %v, height key %v)", h, hk, ik), nil)
		}
	}
}

// untouched checks that every model height outside [from,to) is still readable.
func (e *env) untouched(before snap, from, to uint64, sigPrefix string) {
	bg := context.Background()
	for h := uint64(1); h <= e.chain.Len(); h++ {
		if h >= from && h < to {
			continue
		}
		if before.byHeight[h] {
			if g, err := e.getByHeight(h); err != nil || g.Height() != h {
				e.c.Violation(sigPrefix+"/outside-header-lost-by-height", fmt.Sprintf("height %d outside [%d,%d) no longer readable: %v", h, from, to, err), nil)
			}
		}
		if before.byHash[h] {
			if _, err := e.st.Get(bg, e.chain.At(h).Hash()); err != nil {
				e.c.Violation(sigPrefix+"/outside-header-lost-by-hash", fmt.Sprintf("hash of %d outside [%d,%d) no longer readable: %v", h, from, to, err), nil)
			}
		}
	}
}

// resolves checks that Head and Tail (when present) are stored headers with Tail <= Head.
func (e *env) resolves(sigPrefix string, wasOnDisk map[uint64]bool) {
	bg := context.Background()
	head, tail, herr, terr := e.headTail()
	if herr != nil && terr != nil {
		return
	}
	if (herr == nil) != (terr == nil) {
		e.c.Violation(sigPrefix+"/only-one-pointer", fmt.Sprintf("Head err=%v Tail err=%v", herr, terr), nil)
		return
	}
	if tail.Height() > head.Height() {
		e.c.Violation(sigPrefix+"/tail-above-head", fmt.Sprintf("Tail %d > Head %d", tail.Height(), head.Height()), nil)
	}
	for name, p := range map[string]*vh.Header{"head": head, "tail": tail} {
		missing := ""
		if g, err := e.getByHeight(p.Height()); err != nil || string(g.Hash()) != string(p.Hash()) {
			missing = fmt.Sprintf("%s %d does not resolve by height: %v", name, p.Height(), err)
		} else if _, err := e.st.Get(bg, p.Hash()); err != nil {
			missing = fmt.Sprintf("%s %d does not resolve by hash: %v", name, p.Height(), err)
		} else if hk, ik := e.rawKeysFor(p.Height()); (hk != ik) && (hk || ik) {
			// a pointer to a half-deleted header (one key gone): dangling after restart
			missing = fmt.Sprintf("%s %d is half-deleted in the datastore: hash key %v, height key %v", name, p.Height(), hk, ik)
		} else if !hk && !ik && wasOnDisk[p.Height()] {
			// the pointer names a header whose datastore keys are both gone: it only lives in memory
			missing = fmt.Sprintf("%s %d was on disk before the call, now neither key exists although it is still the %s", name, p.Height(), name)
		}
		if missing != "" {
			e.c.Violation(sigPrefix+"/pointer-target-missing-from-store", missing, nil)
		}
	}
}

func storeMixes(r *mon.Run) []mix {
	var out []mix
	add := func(m mix) { out = append(out, m) }
	add(mix{Cfg: Cfg{SC: 64, IC: 64, WB: 8, Flavour: "plain"}, T0: 1, Batches: []int{8, 3}, Par: 4})
	add(mix{Cfg: Cfg{SC: 64, IC: 64, WB: 8, Flavour: "ctx"}, T0: 2, Batches: []int{8, 3}, Par: 4})
	add(mix{Cfg: Cfg{SC: 64, IC: 64, WB: 4, Flavour: "plain"}, T0: 2, Batches: []int{6, 2}, Reader: true})
	add(mix{Cfg: Cfg{SC: 8, IC: 8, WB: 1, Flavour: "ctx"}, T0: 1, Batches: []int{7}, Reader: true})
	add(mix{Cfg: Cfg{SC: 64, IC: 64, WB: 1, Flavour: "plain"}, T0: 2, Batches: []int{7}, Appender: true})
	add(mix{Cfg: Cfg{SC: 8, IC: 8, WB: 4, Flavour: "ctx"}, T0: 1, Batches: []int{5, 2}, Appender: true})
	add(mix{Cfg: Cfg{SC: 64, IC: 64, WB: 64, Flavour: "plain"}, T0: 1, Batches: []int{6}, Appender: true, AppendNew: true})
	add(mix{Cfg: Cfg{SC: 8, IC: 8, WB: 4, Flavour: "ctx"}, T0: 2, Batches: []int{4, 3}, Appender: true, AppendNew: true})
	for _, fl := range []string{"plain", "ctx"} {
		add(mix{Cfg: Cfg{SC: 8, IC: 8, WB: 1, Flavour: fl}, T0: 3, Batches: []int{6}})                   // all flushed
		add(mix{Cfg: Cfg{SC: 512, IC: 512, WB: 64, Flavour: fl}, T0: 3, Batches: []int{8}})              // nothing flushed
		add(mix{Cfg: Cfg{SC: 2, IC: 2, WB: 4, Flavour: fl}, T0: 2, Batches: []int{5, 3}})                // 5 flushed + 3 pending
		add(mix{Cfg: Cfg{SC: 512, IC: 8, WB: 64, Flavour: fl}, T0: 1, Batches: []int{7}, Restart: true}) // flushed by restart, cold caches
	}
	if !r.Quick() {
		rng := r.Rand("mixes")
		for i := 0; i < 190; i++ {
			m := mix{Cfg: Cfg{SC: []int{2, 8, 512}[rng.Intn(3)], IC: []int{2, 8, 512}[rng.Intn(3)], WB: []int{1, 4, 64}[rng.Intn(3)], Flavour: []string{"plain", "ctx"}[rng.Intn(2)]}, T0: 1 + rng.Intn(5), Restart: rng.Intn(4) == 0}
			for nb := 1 + rng.Intn(3); nb > 0; nb-- {
				m.Batches = append(m.Batches, 1+rng.Intn(5))
			}
			if rng.Intn(3) == 0 {
				m.Par = 3 + rng.Intn(4)
			}
			add(m)
		}
	}
	return out
}

func TestC08(t *testing.T) {
	r := mon.Open(t, "C08")
	mon.Register(r, "pair", c08Pair)
	mon.Register(r, "partial", c08Partial)
	mon.Register(r, "bulk", c08Bulk)
	mixes := storeMixes(r)
	rng := r.Rand("pairs")
	for mi, m := range mixes {
		T, H := uint64(m.T0), uint64(m.T0+m.n()-1)
		lo := uint64(0)
		if T > 2 {
			lo = T - 2
		}
		exhaustive := mi < 12
		for from := lo; from <= H+3; from++ {
			for to := lo; to <= H+3; to++ {
				if !exhaustive && rng.Intn(6) != 0 {
					continue
				}
				mon.Emit(r, "pair", c08P{Mix: m, From: from, To: to}, "pair")
			}
		}
	}
	// part-way failures: every fault position for prefix / suffix / whole deletions
	nf := 0
	for _, m := range mixes {
		if nf >= r.N(1600, 9000) {
			break
		}
		T, H := uint64(m.T0), uint64(m.T0+m.n()-1)
		ranges := [][2]uint64{{T, H}, {T, T + 2}, {H - 1, H + 1}, {T + 1, H + 1}, {T, H + 1}}
		for _, rg := range ranges {
			span := int(rg[1] - rg[0])
			for k := 0; k < span; k++ {
				for _, f := range []string{"heightkey", "hashkey", "deadline", "handler"} {
					mon.Emit(r, "partial", c08P{Mix: m, From: rg[0], To: rg[1], Fault: f, K: k}, "partial")
					nf++
				}
			}
			for k := 0; k < 2*span+3; k++ {
				mon.Emit(r, "partial", c08P{Mix: m, From: rg[0], To: rg[1], Fault: "write", K: k}, "partial")
				nf++
			}
		}
	}
	// the parallel path on its real threshold (thorough only) and with a lowered threshold (always)
	for _, fl := range []string{"plain", "ctx"} {
		for _, side := range []string{"prefix", "suffix", "whole"} {
			mon.Emit(r, "bulk", c08Bulk_{Flavour: fl, Side: side, N: 60, Par: 10, WB: 16}, "bulk")
			if !r.Quick() {
				mon.Emit(r, "bulk", c08Bulk_{Flavour: fl, Side: side, N: 10500, Par: 0, WB: 64}, "bulk")
			}
		}
	}
	r.Finish()
}

func newEnv(c *mon.Case, m mix, extra int) *env {
	return &env{c: c, d: memds.New(), cfg: m.Cfg, chain: newChain(m.T0 + m.n() + extra), P: map[uint64]bool{}}
}

func (e *env) teardown() {
	e.d.SetFailWrite(nil)
	e.d.SetFailRead(nil)
	if err := e.stop(); err != nil {
		e.c.Violation("stop-fails", fmt.Sprintf("Stop: %v", err), nil)
	}
}

func setPar(p int) func() {
	if p <= 0 {
		return func() {}
	}
	old := store.VerifSetDeleteRangeParallelThreshold(uint64(p))
	return func() { store.VerifSetDeleteRangeParallelThreshold(old) }
}

func c08Pair(c *mon.Case, p c08P) {
	c.Bubble(func() {
		defer setPar(p.Mix.Par)()
		e := newEnv(c, p.Mix, 12)
		if !e.populate(p.Mix) {
			return
		}
		defer e.teardown()
		before := e.snapshot()
		if before.empty {
			c.Violation("populate/empty-store", "store empty after populating", nil)
			return
		}
		T, H := before.tH, before.hH
		class, valid := rangeClass(p.From, p.To, T, H)
		touchesUnfl := "flushed"
		for h := p.From; h < p.To && h <= H; h++ {
			if before.unflushedAny[h] {
				touchesUnfl = "touches-unflushed"
			}
		}
		ctx, cancel := vctx(time.Hour)
		err := e.st.DeleteRange(ctx, p.From, p.To)
		cancel()
		synctest.Wait()
		c.Count("delete_calls", 1)
		c.Class("%s flavour=%s wb=%d restart=%v par=%d reader=%v %s err=%v", class, p.Mix.Cfg.Flavour, p.Mix.Cfg.WB, p.Mix.Restart, p.Mix.Par, p.Mix.Reader || p.Mix.Appender, touchesUnfl, err != nil)
		if !valid {
			if err == nil {
				c.Violation("invalid-range-accepted/"+class, fmt.Sprintf("DeleteRange(%d,%d) with Tail %d Head %d returned nil", p.From, p.To, T, H), nil)
			}
			after := e.snapshot()
			if after.head != before.head || after.tail != before.tail || after.empty {
				c.Violation("invalid-range-had-effect/pointers/"+class, fmt.Sprintf("DeleteRange(%d,%d) rejected (%v) but Head/Tail changed: %d..%d -> %d..%d", p.From, p.To, err, T, H, after.tH, after.hH), nil)
			}
			for h := uint64(1); h <= e.chain.Len(); h++ {
				if before.byHeight[h] != after.byHeight[h] || before.byHash[h] != after.byHash[h] {
					c.Violation("invalid-range-had-effect/readability/"+class, fmt.Sprintf("readability of height %d changed", h), nil)
					break
				}
			}
			if !sameKeys(before.keys, after.keys) {
				c.Violation("invalid-range-had-effect/datastore-keys/"+class, "raw key set changed", map[string]any{"before": before.keys, "after": after.keys})
			}
			return
		}
		if err != nil {
			c.Violation("valid-range-rejected/"+class, fmt.Sprintf("DeleteRange(%d,%d) with Tail %d Head %d: %v", p.From, p.To, T, H, err), nil)
			return
		}
		sig := "nil-return/" + class
		e.afterNil(before, p.From, p.To, class, sig)
	})
}

// afterNil applies the oracle for a DeleteRange that returned nil, including continuations.
func (e *env) afterNil(before snap, from, to uint64, class, sig string) {
	c := e.c
	T, H := before.tH, before.hH
	for h := from; h < to; h++ {
		delete(e.P, h)
	}
	e.absent(from, to, sig, before.unflushedAny)
	e.untouched(before, from, to, sig)
	head, tail, herr, terr := e.headTail()
	switch class {
	case "whole":
		e.anchored = false
		if !errors.Is(herr, header.ErrEmptyStore) || !errors.Is(terr, header.ErrEmptyStore) {
			c.Violation(sig+"/pointers-not-empty", fmt.Sprintf("whole chain deleted but Head=%v (%v) Tail=%v (%v)", head, herr, tail, terr), nil)
		}
	case "prefix":
		if herr != nil || terr != nil || tail.Height() != to || head.Height() != H {
			c.Violation(sig+"/pointers-wrong", fmt.Sprintf("after deleting [%d,%d) of %d..%d: Head=%v (%v) Tail=%v (%v)", from, to, T, H, head, herr, tail, terr), nil)
		}
	case "suffix":
		if herr != nil || terr != nil || tail.Height() != T || head.Height() != from-1 {
			c.Violation(sig+"/pointers-wrong", fmt.Sprintf("after deleting [%d,%d) of %d..%d: Head=%v (%v) Tail=%v (%v)", from, to, T, H, head, herr, tail, terr), nil)
		}
	}
	e.resolves(sig, before.onDisk)
	if e.newDuring > 0 {
		// a header appended (and synced) while the deletion was running, outside the range
		if g, err := e.st.Get(context.Background(), e.chain.At(e.newDuring).Hash()); err != nil || g.Height() != e.newDuring {
			c.Violation(sig+"/header-appended-during-the-deletion-lost", fmt.Sprintf("height %d was appended and synced from inside an OnDelete handler during DeleteRange(%d,%d); now Get(hash) says: %v", e.newDuring, from, to, err), nil)
		}
		e.P[e.newDuring] = true
	}
	if c.Violated() {
		return
	}
	// continuation: append above the old head, flush, restart (same object, then fresh object)
	for step, fresh := range []bool{false, true} {
		next := H + 1 + uint64(step*5)
		hs := []uint64{next, next + 1, next + 2, next + 3, next + 4}
		if err := e.appendHs(hs...); err != nil {
			c.Violation("append-fails", fmt.Sprint(err), nil)
			return
		}
		if err := e.sync(); err != nil {
			c.Violation("sync-fails", fmt.Sprint(err), nil)
			return
		}
		e.absent(from, to, sig+"/after-append", before.unflushedAny)
		if err := e.stop(); err != nil {
			c.Violation("stop-fails", fmt.Sprint(err), nil)
			return
		}
		if fresh {
			if err := e.open(); err != nil {
				c.Violation("reopen-fails", fmt.Sprint(err), nil)
				return
			}
		}
		if err := e.start(); err != nil {
			c.Violation(sig+"/restart-fails", fmt.Sprint(err), nil)
			return
		}
		e.absent(from, to, sig+"/after-restart", before.unflushedAny)
		e.untouched(before, from, to, sig+"/after-restart")
		e.checkChain(sig+"/after-restart", false)
		if c.Violated() {
			return
		}
	}
}

// ---- part-way failures ----

func c08Partial(c *mon.Case, p c08P) {
	c.Bubble(func() {
		defer setPar(p.Mix.Par)()
		e := newEnv(c, p.Mix, 12)
		if !e.populate(p.Mix) {
			return
		}
		defer e.teardown()
		before := e.snapshot()
		T, H := before.tH, before.hH
		class, valid := rangeClass(p.From, p.To, T, H)
		if !valid {
			c.Trivial()
			c.Class("skipped-invalid")
			return
		}
		target := p.From + uint64(p.K) // height whose delete is hit
		ctx, cancel := vctx(time.Hour)
		fired := 0
		// site names the kind of write unit the injected fault hit: findings are identified by it
		site := "not-fired"
		classify := func(u memds.Unit) string {
			ptr := ""
			for _, op := range u.Ops {
				switch op.Key {
				case "/headers/tail":
					ptr = "tail-pointer"
				case "/headers/head":
					ptr = "head-pointer"
				}
			}
			switch {
			case len(u.Ops) == 1 && ptr != "":
				return ptr + "-write"
			case len(u.Ops) == 1 && u.Ops[0].Del:
				return "header-key-delete"
			case len(u.Ops) == 1:
				return "header-key-put"
			case ptr != "":
				return "batch-commit-with-" + ptr
			}
			return "batch-commit"
		}
		switch p.Fault {
		case "write": // the k-th write unit after the delete starts fails
			base := e.d.Attempts()
			e.d.SetFailWrite(func(n int, u memds.Unit) bool {
				if n == base+p.K {
					fired++
					site = classify(u)
					return true
				}
				return false
			})
		case "heightkey", "hashkey":
			hk := "/headers/" + e.chain.At(target).Hash().String()
			ik := fmt.Sprintf("/headers/%d", target)
			want := map[string]string{"heightkey": ik, "hashkey": hk}[p.Fault]
			e.d.SetFailWrite(func(n int, u memds.Unit) bool {
				for _, op := range u.Ops {
					if op.Del && op.Key == want && fired == 0 {
						fired++
						site = classify(u)
						return true
					}
				}
				return false
			})
		case "handler": // a handler refusing one height (no datastore fault at all)
			e.st.OnDelete(func(hctx context.Context, h uint64) error {
				if h == target && fired == 0 {
					fired++
					return errors.New("c08: handler refuses")
				}
				return nil
			})
		case "deadline": // a handler that takes 1ms (virtual) per header; the caller's deadline cuts the deletion
			e.st.OnDelete(func(hctx context.Context, h uint64) error {
				time.Sleep(time.Millisecond)
				return nil
			})
			cancel()
			ctx, cancel = vctx(time.Duration(p.K+1)*time.Millisecond + 500*time.Microsecond)
		}
		err := e.st.DeleteRange(ctx, p.From, p.To)
		cancel()
		e.d.SetFailWrite(nil)
		synctest.Wait()
		c.Count("partial_delete_calls", 1)
		c.Count("faults_fired", fired)
		c.Class("%s flavour=%s wb=%d restart=%v fault=%s fired=%v err=%v", class, p.Mix.Cfg.Flavour, p.Mix.Cfg.WB, p.Mix.Restart, p.Fault, fired > 0, err != nil)
		fclass := map[string]string{"write": "ds-write-fault", "heightkey": "ds-write-fault", "hashkey": "ds-write-fault", "deadline": "deadline", "handler": "handler"}[p.Fault]
		if fclass == "ds-write-fault" {
			fclass += "@" + site
		}
		path := "seq"
		if p.Mix.Par > 0 && int(p.To-p.From) >= p.Mix.Par {
			path = "par"
		}
		sig := "partial/" + fclass + "/" + path + "/" + class
		if err == nil {
			// the fault did not hit (or was absorbed): the nil oracle applies
			e.afterNil(before, p.From, p.To, class, "nil-return/"+class+"/fault="+p.Fault)
			return
		}
		e.untouched(before, p.From, p.To, sig)
		e.resolves("partial/"+fclass+"/"+path, before.onDisk)
		if _, _, herr, terr := e.headTail(); class == "whole" && errors.Is(herr, header.ErrEmptyStore) && errors.Is(terr, header.ErrEmptyStore) {
			// every header is gone and only dropping a pointer failed: the deletion is complete in effect
			for h := p.From; h < p.To; h++ {
				delete(e.P, h)
			}
			e.absent(p.From, p.To, sig+"/empty-after-error", before.unflushedAny)
			return
		}
		if class != "suffix" {
			// retry of a tail-side deletion (from the current tail) must complete it
			_, tail, _, terr := e.headTail()
			if terr != nil {
				c.Violation(sig+"/tail-lost", fmt.Sprintf("Tail after failed deletion: %v", terr), nil)
				return
			}
			if tail.Height() < p.From || tail.Height() > p.To {
				c.Violation(sig+"/tail-outside-progress", fmt.Sprintf("Tail %d after failed DeleteRange(%d,%d)", tail.Height(), p.From, p.To), nil)
				return
			}
			if tail.Height() == p.To {
				return // deletion actually completed although an error was reported
			}
			ctx2, cancel2 := vctx(time.Hour)
			err2 := e.st.DeleteRange(ctx2, tail.Height(), p.To)
			cancel2()
			synctest.Wait()
			if err2 != nil {
				c.Violation(sig+"/retry-fails", fmt.Sprintf("fault-free retry DeleteRange(%d,%d): %v (first error: %v)", tail.Height(), p.To, err2, err), nil)
				return
			}
			e.coarse = true
			e.afterNil(before, p.From, p.To, class, "partial/"+fclass+"/"+path+"/after-retry")
		}
	})
}

// ---- bulk (parallel path) ----

type c08Bulk_ struct {
	Flavour string `json:"flavour"`
	Side    string `json:"side"`
	N       int    `json:"n"`
	Par     int    `json:"par"`
	WB      int    `json:"wb"`
}

func c08Bulk(c *mon.Case, p c08Bulk_) {
	c.Bubble(func() {
		defer setPar(p.Par)()
		m := mix{Cfg: Cfg{SC: 64, IC: 64, WB: p.WB, Flavour: p.Flavour}, T0: 1, Batches: []int{p.N - 5, 5}}
		e := newEnv(c, m, 12)
		if !e.populate(m) {
			return
		}
		defer e.teardown()
		before := e.snapshot()
		T, H := before.tH, before.hH
		var from, to uint64
		switch p.Side {
		case "prefix":
			from, to = T, H-3
		case "suffix":
			from, to = T+3, H+1
		case "whole":
			from, to = T, H+1
		}
		class, _ := rangeClass(from, to, T, H)
		ctx, cancel := vctx(time.Hour)
		err := e.st.DeleteRange(ctx, from, to)
		cancel()
		synctest.Wait()
		c.Count("bulk_delete_calls", 1)
		c.Class("bulk %s flavour=%s n=%d par=%d err=%v", class, p.Flavour, p.N, p.Par, err != nil)
		if err != nil {
			c.Violation("valid-range-rejected/bulk-"+class, fmt.Sprint(err), nil)
			return
		}
		e.afterNil(before, from, to, class, "nil-return/bulk-"+class)
	})
}
