//go:build verif

package storeprops

import (
	"fmt"
	"strings"
	"testing"
	"time"

	"verifharness/memds"
	"verifharness/mon"
)

// ---- C04: Store is a gap-free chain Tail..Head with consistent height and hash lookups ----

type c04Op struct {
	Op    string   `json:"op"`              // append | sync | delete | restart
	Hs    []uint64 `json:"hs,omitempty"`    // append: heights in batch order
	Side  string   `json:"side,omitempty"`  // delete: tail | head | all
	K     int      `json:"k,omitempty"`     // delete: how many headers
	Fresh bool     `json:"fresh,omitempty"` // restart: new Store object on the same datastore
}

type c04P struct {
	Cfg   Cfg     `json:"cfg"`
	Chain int     `json:"chain"`
	Ops   []c04Op `json:"ops"`
}

var cfgSizes = []int{1, 2, 3, 8, 64}

func allCfgs() []Cfg {
	var out []Cfg
	for _, fl := range []string{"plain", "ctx"} {
		for _, sc := range cfgSizes {
			for _, ic := range cfgSizes {
				for _, wb := range cfgSizes {
					out = append(out, Cfg{SC: sc, IC: ic, WB: wb, Flavour: fl})
				}
			}
		}
	}
	return out
}

func TestC04(t *testing.T) {
	r := mon.Open(t, "C04")
	mon.Register(r, "history", c04Run)
	cfgs := allCfgs()
	rng := r.Rand("gen")
	n := r.N(400, 10000)
	maxOps := r.N(14, 40)
	maxChain := r.N(24, 96)
	for i := 0; i < n; i++ {
		cfg := cfgs[rng.Intn(len(cfgs))]
		if i < len(cfgs) && !r.Quick() {
			cfg = cfgs[i] // thorough: every configuration at least once
		}
		cfg.Metrics = i%5 == 4 // every fifth history runs a store with metrics switched on
		chain := 6 + rng.Intn(maxChain-5)
		p := c04P{Cfg: cfg, Chain: chain}
		nops := 3 + rng.Intn(maxOps-2)
		next := uint64(1 + rng.Intn(3)) // lowest height not yet handed out
		var pool []uint64               // heights skipped earlier (gaps to fill)
		for j := 0; j < nops; j++ {
			switch x := rng.Intn(100); {
			case x < 50: // append
				var hs []uint64
				sz := 1 + rng.Intn(6)
				mode := rng.Intn(6)
				for k := 0; k < sz && next <= uint64(chain); k++ {
					if mode == 4 && rng.Intn(3) == 0 { // leave a gap
						pool = append(pool, next)
						next++
						if next > uint64(chain) {
							break
						}
					}
					hs = append(hs, next)
					next++
				}
				switch mode {
				case 1: // descending
					for a, b := 0, len(hs)-1; a < b; a, b = a+1, b-1 {
						hs[a], hs[b] = hs[b], hs[a]
					}
				case 2: // shuffled
					rng.Shuffle(len(hs), func(a, b int) { hs[a], hs[b] = hs[b], hs[a] })
				case 3: // with a repeat of something already handed out
					if next > 2 {
						hs = append(hs, 1+uint64(rng.Intn(int(next-1))))
					}
				case 5: // fill gaps
					if len(pool) > 0 {
						take := 1 + rng.Intn(len(pool))
						hs = append(pool[:take:take], hs...)
						pool = pool[take:]
					}
				}
				if len(hs) > 0 {
					p.Ops = append(p.Ops, c04Op{Op: "append", Hs: hs})
				}
			case x < 62:
				// append the K heights right above the observed Head (re-appends a deleted suffix, if any)
				p.Ops = append(p.Ops, c04Op{Op: "append-next", K: 1 + rng.Intn(5)})
			case x < 70:
				p.Ops = append(p.Ops, c04Op{Op: "sync"})
			case x < 85:
				side := []string{"tail", "head", "tail", "head", "all"}[rng.Intn(5)]
				p.Ops = append(p.Ops, c04Op{Op: "delete", Side: side, K: 1 + rng.Intn(4)})
			default:
				p.Ops = append(p.Ops, c04Op{Op: "restart", Fresh: rng.Intn(2) == 0})
			}
		}
		mon.Emit(r, "history", p, "history")
	}
	// targeted: the deleted end is appended again (Head / Tail return to exactly their flushed values), then a restart
	for _, fl := range []string{"plain", "ctx"} {
		for _, wb := range []int{1, 2, 4, 64} {
			for _, side := range []string{"head", "tail"} {
				for _, k := range []int{1, 3, 5} {
					for _, fresh := range []bool{false, true} {
						if side == "tail" && fresh && k > 1 {
							continue
						}
						ops := []c04Op{{Op: "append", Hs: []uint64{2, 3, 4, 5, 6, 7}}, {Op: "append", Hs: []uint64{8, 9, 10, 11, 12, 13}}, {Op: "sync"}, {Op: "delete", Side: side, K: k}}
						if side == "head" {
							ops = append(ops, c04Op{Op: "append-next", K: k})
						} else {
							var hs []uint64
							for h := uint64(2); h < uint64(2+k); h++ {
								hs = append(hs, h)
							}
							ops = append(ops, c04Op{Op: "append", Hs: hs})
						}
						ops = append(ops, c04Op{Op: "restart", Fresh: fresh}, c04Op{Op: "append-next", K: 2}, c04Op{Op: "restart", Fresh: !fresh})
						mon.Emit(r, "history", c04P{Cfg: Cfg{SC: 8, IC: 8, WB: wb, Flavour: fl}, Chain: 24, Ops: ops}, "history")
					}
				}
			}
		}
	}
	r.Finish()
}

func c04Run(c *mon.Case, p c04P) {
	c.Bubble(func() {
		e := &env{c: c, d: memds.New(), cfg: p.Cfg, chain: newChain(p.Chain), P: map[uint64]bool{}, strictUnstored: true}
		if err := e.open(); err != nil {
			c.Class("config-not-accepted %s", p.Cfg)
			c.Trivial()
			c.Count("config_not_accepted", 1)
			return
		}
		if err := e.start(); err != nil {
			c.Violation("start-fails-on-empty", fmt.Sprintf("Start on an empty datastore: %v", err), nil)
			return
		}
		defer func() {
			if err := e.stop(); err != nil {
				c.Violation("stop-fails", fmt.Sprintf("Stop: %v", err), nil)
			}
		}()
		var kinds []string
		firstGapped := false
		seenAppend := false
		for i, op := range p.Ops {
			tag := op.Op
			switch op.Op {
			case "append":
				if !seenAppend {
					seenAppend = true
					mn, mx := op.Hs[0], op.Hs[0]
					set := map[uint64]bool{}
					for _, h := range op.Hs {
						mn, mx = min(mn, h), max(mx, h)
						set[h] = true
					}
					firstGapped = uint64(len(set)) != mx-mn+1
				}
				if err := e.appendHs(op.Hs...); err != nil {
					c.Violation("append-fails", fmt.Sprintf("Append(%v): %v", op.Hs, err), nil)
					return
				}
				c.Count("appends", 1)
			case "append-next":
				hs, ok := e.nextAbove(op.K)
				if !ok {
					tag = "append-next-skipped"
					break
				}
				seenAppend = true
				if err := e.appendHs(hs...); err != nil {
					c.Violation("append-fails", fmt.Sprintf("Append(%v): %v", hs, err), nil)
					return
				}
				c.Count("appends", 1)
			case "sync":
			case "delete":
				if err := e.sync(); err != nil {
					c.Violation("sync-fails", fmt.Sprint(err), nil)
					return
				}
				head, tail, herr, terr := e.headTail()
				if herr != nil || terr != nil {
					tag = "delete-on-empty"
					break
				}
				T, H := tail.Height(), head.Height()
				var from, to uint64
				switch op.Side {
				case "tail":
					from, to = T, min(T+uint64(op.K), H+1)
				case "head":
					to = H + 1
					from = to - min(uint64(op.K), to-T)
				case "all":
					from, to = T, H+1
				}
				if from == T && to == H+1 {
					tag = "delete-all"
				} else {
					tag = "delete-" + op.Side
				}
				ctx, cancel := vctx(time.Hour)
				err := e.st.DeleteRange(ctx, from, to)
				cancel()
				c.Count("deletes", 1)
				if err == nil {
					for h := from; h < to; h++ {
						delete(e.P, h)
					}
					if tag == "delete-all" {
						e.anchored = false
					}
				} else {
					c.Violation("valid-delete-rejected/"+tag, fmt.Sprintf("DeleteRange(%d,%d) with Tail %d Head %d: %v", from, to, T, H, err), nil)
					return
				}
			case "restart":
				if err := e.sync(); err != nil {
					c.Violation("sync-fails", fmt.Sprint(err), nil)
					return
				}
				if err := e.stop(); err != nil {
					c.Violation("stop-fails", fmt.Sprint(err), nil)
					return
				}
				if op.Fresh {
					tag = "restart-fresh"
					if err := e.open(); err != nil {
						c.Violation("reopen-fails", fmt.Sprint(err), nil)
						return
					}
				}
				if err := e.start(); err != nil {
					c.Violation("restart-fails/"+tag, fmt.Sprintf("Start after Stop: %v", err), nil)
					return
				}
				c.Count("restarts", 1)
			}
			kinds = append(kinds, tag)
			if err := e.sync(); err != nil {
				c.Violation("sync-fails", fmt.Sprint(err), nil)
				return
			}
			ctxTag := "after=" + tag
			if firstGapped {
				ctxTag += "/first-batch-gapped"
			}
			if !e.checkChain(ctxTag, i%3 == 0 || i == len(p.Ops)-1) {
				c.Sample(map[string]any{"failed_after_op": i, "ops_so_far": kinds})
				break
			}
		}
		c.Class("%s flavour=%s wb=%d sc=%d ops=%s", map[bool]string{true: "gapped-first", false: "run-first"}[firstGapped], p.Cfg.Flavour, p.Cfg.WB, p.Cfg.SC, strings.Join(dedupRuns(kinds), ","))
	})
}

func dedupRuns(k []string) []string {
	var out []string
	for _, s := range k {
		if len(out) == 0 || out[len(out)-1] != s {
			out = append(out, s)
		}
	}
	return out
}
