//go:build verif

package storeprops

import (
	"context"
	"fmt"
	"strings"
	"testing"
	"testing/synctest"
	"time"

	"verifharness/memds"
	"verifharness/mon"
	"verifharness/sched"
	"verifharness/vh"
)

// ---- C06: Store survives restart and crash without loss or dangling head/tail pointers ----

type c06P struct {
	Cfg   Cfg     `json:"cfg"`
	Chain int     `json:"chain"`
	Ops   []c04Op `json:"ops"` // append | sync | delete | restart | stopnow (Stop right after the previous Append, no Sync)
	// fault placement (kind "faults"): N consecutive failing write attempts starting at attempt K
	K int `json:"k,omitempty"`
	N int `json:"n,omitempty"`
	// stopnow: virtual delay at store.flush.begin (0 = none)
	FlushDelayUs int `json:"flush_delay_us,omitempty"`
}

func genHistory(rng interface{ Intn(int) int }, chain, nops int, deletes bool) []c04Op {
	var ops []c04Op
	next := uint64(1 + rng.Intn(3))
	for j := 0; j < nops && next <= uint64(chain); j++ {
		switch x := rng.Intn(100); {
		case x < 48 || len(ops) == 0:
			var hs []uint64
			sz := 1 + rng.Intn(5)
			for k := 0; k < sz && next <= uint64(chain); k++ {
				hs = append(hs, next)
				next++
			}
			ops = append(ops, c04Op{Op: "append", Hs: hs})
		case x < 60 && deletes:
			ops = append(ops, c04Op{Op: "append-next", K: 1 + rng.Intn(5)})
		case x < 65:
			ops = append(ops, c04Op{Op: "sync"})
		case x < 85 && deletes:
			side := []string{"tail", "head", "tail", "head", "all"}[rng.Intn(5)]
			ops = append(ops, c04Op{Op: "delete", Side: side, K: 1 + rng.Intn(4)})
		default:
			ops = append(ops, c04Op{Op: "restart", Fresh: rng.Intn(2) == 0})
		}
	}
	return ops
}

func TestC06(t *testing.T) {
	r := mon.Open(t, "C06")
	mon.Register(r, "crash", c06Crash)
	mon.Register(r, "faults", c06Faults)
	mon.Register(r, "stopnow", c06StopNow)
	mon.Register(r, "delfaults", c06DelFaults)
	rng := r.Rand("gen")
	cfgs := []Cfg{}
	for _, fl := range []string{"plain", "ctx"} {
		for _, wb := range []int{1, 3, 64} {
			cfgs = append(cfgs, Cfg{SC: 8, IC: 8, WB: wb, Flavour: fl})
		}
	}
	// crash: every prefix of the commit log of each history
	for i := 0; i < r.N(60, 1500); i++ {
		chain := 8 + rng.Intn(r.N(14, 40))
		p := c06P{Cfg: cfgs[i%len(cfgs)], Chain: chain, Ops: genHistory(rng, chain, 4+rng.Intn(r.N(8, 20)), true)}
		mon.Emit(r, "crash", p, "crash")
	}
	// targeted crash histories: a head-side / tail-side / whole deletion in the middle
	for _, cfg := range cfgs {
		for _, side := range []string{"head", "tail", "all"} {
			p := c06P{Cfg: cfg, Chain: 16, Ops: []c04Op{{Op: "append", Hs: []uint64{1, 2, 3, 4, 5, 6}}, {Op: "append", Hs: []uint64{7, 8, 9, 10, 11, 12}}, {Op: "sync"}, {Op: "delete", Side: side, K: 4}, {Op: "append", Hs: []uint64{13, 14}}}}
			mon.Emit(r, "crash", p, "crash")
			// the deleted end is appended again and the store restarted cleanly
			p2 := c06P{Cfg: cfg, Chain: 20, Ops: []c04Op{{Op: "append", Hs: []uint64{1, 2, 3, 4, 5, 6}}, {Op: "append", Hs: []uint64{7, 8, 9, 10, 11, 12}}, {Op: "sync"}, {Op: "delete", Side: side, K: 4}, {Op: "append-next", K: 4}, {Op: "restart", Fresh: side == "tail"}, {Op: "append-next", K: 2}}}
			mon.Emit(r, "crash", p2, "crash")
		}
	}
	// transient faults: every placement of N consecutive failing writes (append-only histories)
	for i := 0; i < r.N(20, 200); i++ {
		chain := 8 + rng.Intn(12)
		base := c06P{Cfg: cfgs[i%len(cfgs)], Chain: chain, Ops: genHistory(rng, chain, 4+rng.Intn(6), false)}
		// number of write attempts of a fault-free run is bounded by #ops*2+4: enumerate generously
		for n := 1; n <= 3; n++ {
			for k := 0; k < 2*len(base.Ops)+4; k++ {
				p := base
				p.K, p.N = k, n
				mon.Emit(r, "faults", p, "faults")
			}
		}
		// a longer outage of the datastore (the flush loop retries with growing pauses until it is over)
		if i%4 == 0 {
			for _, n := range []int{10, 11, 30} {
				for k := 0; k < 2*len(base.Ops)+4; k += 2 {
					p := base
					p.K, p.N = k, n
					mon.Emit(r, "faults", p, "faults")
				}
			}
		}
	}
	// transient faults inside a DeleteRange: every placement of N consecutive failing write attempts counted from
	// the start of the deletion; afterwards (faults over) optionally more appends, a clean Stop, and the reopen oracle
	for _, cfg := range cfgs {
		for _, side := range []string{"tail", "head", "all"} {
			for _, after := range []int{0, 2} {
				for n := 1; n <= 2; n++ {
					if n == 2 && r.Quick() && after == 0 {
						continue
					}
					for k := 0; k < 14; k++ {
						p := c06P{Cfg: cfg, Chain: 16, K: k, N: n, Ops: []c04Op{{Op: "append", Hs: []uint64{1, 2, 3, 4, 5, 6}}, {Op: "append", Hs: []uint64{7, 8, 9, 10}}, {Op: "sync"}, {Op: "delete", Side: side, K: 4}}}
						if after > 0 {
							p.Ops = append(p.Ops, c04Op{Op: "append-next", K: after})
						}
						mon.Emit(r, "delfaults", p, "delfaults")
					}
				}
			}
		}
	}
	// Stop immediately after Append, with the flush loop delayed or not
	for _, cfg := range cfgs {
		for _, d := range []int{0, 1, 1000} {
			for _, first := range []int{0, 10} {
				p := c06P{Cfg: cfg, Chain: 30, FlushDelayUs: d}
				if first > 0 {
					hs := make([]uint64, first)
					for i := range hs {
						hs[i] = uint64(i + 1)
					}
					p.Ops = append(p.Ops, c04Op{Op: "append", Hs: hs}, c04Op{Op: "sync"})
				}
				hs := make([]uint64, 10)
				for i := range hs {
					hs[i] = uint64(first + i + 1)
				}
				p.Ops = append(p.Ops, c04Op{Op: "append", Hs: hs}, c04Op{Op: "stopnow"})
				mon.Emit(r, "stopnow", p, "stopnow")
			}
		}
	}
	r.Finish()
}

// runHistory executes ops on e; returns the run-length compressed op kinds. stopOnViolation.
func (e *env) runHistory(ops []c04Op, strictDeletes bool) ([]string, bool) {
	c := e.c
	var kinds []string
	for _, op := range ops {
		tag := op.Op
		switch op.Op {
		case "append":
			if err := e.appendHs(op.Hs...); err != nil {
				c.Violation("append-fails", fmt.Sprintf("Append(%v): %v", op.Hs, err), nil)
				return kinds, false
			}
		case "append-next":
			hs, ok := e.nextAbove(op.K)
			if !ok {
				continue
			}
			if err := e.appendHs(hs...); err != nil {
				c.Violation("append-fails", fmt.Sprintf("Append(%v): %v", hs, err), nil)
				return kinds, false
			}
		case "sync":
			if err := e.sync(); err != nil {
				c.Violation("sync-fails", fmt.Sprint(err), nil)
				return kinds, false
			}
		case "delete":
			if err := e.sync(); err != nil {
				c.Violation("sync-fails", fmt.Sprint(err), nil)
				return kinds, false
			}
			head, tail, herr, terr := e.headTail()
			if herr != nil || terr != nil {
				continue
			}
			T, H := tail.Height(), head.Height()
			var from, to uint64
			switch op.Side {
			case "tail":
				from, to = T, min(T+uint64(op.K), H+1)
			case "head":
				to = H + 1
				from = to - min(uint64(op.K), to-T)
			case "all":
				from, to = T, H+1
			}
			tag = "delete-" + op.Side
			if from == T && to == H+1 {
				tag = "delete-all"
			}
			ctx, cancel := vctx(time.Hour)
			err := e.st.DeleteRange(ctx, from, to)
			cancel()
			if err != nil {
				if strictDeletes {
					c.Violation("valid-delete-rejected/"+tag, fmt.Sprint(err), nil)
					return kinds, false
				}
			} else {
				for h := from; h < to; h++ {
					delete(e.P, h)
				}
				if tag == "delete-all" {
					e.anchored = false
				}
			}
		case "restart":
			if err := e.sync(); err != nil {
				c.Violation("sync-fails", fmt.Sprint(err), nil)
				return kinds, false
			}
			hb, tb, _, _ := e.headTail()
			if err := e.stop(); err != nil {
				c.Violation("stop-fails", fmt.Sprint(err), nil)
				return kinds, false
			}
			if op.Fresh {
				tag = "restart-fresh"
				if err := e.open(); err != nil {
					c.Violation("reopen-fails", fmt.Sprint(err), nil)
					return kinds, false
				}
			}
			if err := e.start(); err != nil {
				c.Violation("clean-restart/start-fails", fmt.Sprintf("Start after clean Stop: %v", err), nil)
				return kinds, false
			}
			ha, ta, _, _ := e.headTail()
			if hb.String() != ha.String() || tb.String() != ta.String() {
				c.Violation("clean-restart/head-or-tail-changed", fmt.Sprintf("before Stop: Tail %v Head %v; after Start: Tail %v Head %v", tb, hb, ta, ha), nil)
				return kinds, false
			}
			if !e.checkChain("clean-restart", false) {
				return kinds, false
			}
		}
		kinds = append(kinds, tag)
	}
	return dedupRuns(kinds), true
}

// reopenOracle opens a fresh Store on image and applies the crash-recovery oracle.
func c06Reopen(c *mon.Case, cfg Cfg, image *memds.DS, chain *vh.Chain, chainLen int, sig string, detail any) {
	// the chain of the history is passed in: header times (hence hashes) derive from the virtual clock at creation
	e := &env{c: c, d: image, cfg: cfg, chain: chain, P: map[uint64]bool{}}
	if err := e.open(); err != nil {
		c.Violation(sig+"/open-fails", fmt.Sprint(err), detail)
		return
	}
	if err := e.start(); err != nil {
		c.Violation(sig+"/start-fails", fmt.Sprintf("Start on the surviving data: %v", err), detail)
		return
	}
	defer e.teardown()
	c.Count("images_reopened", 1)
	// model of what the image holds: heights with both raw keys
	top := uint64(0)
	for h := uint64(1); h <= uint64(chainLen); h++ {
		hk, ik := e.rawKeysFor(h)
		if hk && ik {
			e.P[h] = true
			top = h
		} else if hk {
			// retrievable by hash only (index entry lost): must still be readable by hash
			if _, err := e.st.Get(context.Background(), e.chain.At(h).Hash()); err != nil {
				c.Violation(sig+"/stored-header-unreadable-by-hash", fmt.Sprintf("height %d has its hash key in the image but Get fails: %v", h, err), detail)
			}
		}
	}
	head, tail, herr, terr := e.headTail()
	if herr == nil && terr == nil {
		if tail.Height() > head.Height() {
			c.Violation(sig+"/tail-above-head", fmt.Sprintf("Tail %d > Head %d", tail.Height(), head.Height()), detail)
			return
		}
		for h := tail.Height(); h <= head.Height(); h++ {
			g, err := e.getByHeight(h)
			if err != nil || g.Height() != h {
				c.Violation(sig+"/hole-between-tail-and-head", fmt.Sprintf("height %d in [Tail %d, Head %d] is not retrievable: %v", h, tail.Height(), head.Height(), err), detail)
				return
			}
			if _, err := e.st.Get(context.Background(), g.Hash()); err != nil {
				c.Violation(sig+"/hole-between-tail-and-head", fmt.Sprintf("height %d not retrievable by hash: %v", h, err), detail)
				return
			}
		}
		top = head.Height()
	} else {
		for name, pr := range map[string]error{"head": herr, "tail": terr} {
			if pr == nil {
				p := head
				if name == "tail" {
					p = tail
				}
				if g, err := e.getByHeight(p.Height()); err != nil || g.String() != p.String() {
					c.Violation(sig+"/"+name+"-does-not-resolve", fmt.Sprintf("%s %v: %v", name, p, err), detail)
					return
				}
			}
		}
		if herr == nil {
			top = head.Height()
		} else if terr == nil {
			// head pointer lost: the continuation starts above the highest height contiguous with the tail
			top = tail.Height()
			for e.P[top+1] {
				top++
			}
		}
	}
	// HasAt must answer (never crash) on whatever survived, and never claim a height that cannot be read
	for h := uint64(0); h <= uint64(chainLen)+1; h++ {
		if e.st.HasAt(context.Background(), h) {
			if g, err := e.getByHeight(h); err != nil || g.Height() != h {
				c.Violation(sig+"/hasat-true-but-unreadable", fmt.Sprintf("HasAt(%d) is true but GetByHeight fails: %v", h, err), detail)
				return
			}
		}
	}
	for h := range e.P {
		if g, err := e.getByHeight(h); err != nil || g.Height() != h {
			// only heights at or below Height() can be asked without waiting; others are checked by hash
			if _, err2 := e.st.Get(context.Background(), e.chain.At(h).Hash()); err2 != nil {
				c.Violation(sig+"/stored-header-unreadable", fmt.Sprintf("height %d is fully in the image but unreadable: %v / %v", h, err, err2), detail)
				return
			}
		}
	}
	// continuation
	e.anchored = true
	hs := []uint64{top + 1, top + 2, top + 3}
	if err := e.appendHs(hs...); err != nil {
		c.Violation(sig+"/continuation-append-fails", fmt.Sprint(err), detail)
		return
	}
	if err := e.sync(); err != nil {
		c.Violation(sig+"/continuation-sync-fails", fmt.Sprint(err), detail)
		return
	}
	nh, _, herr2, terr2 := e.headTail()
	if herr2 != nil || terr2 != nil {
		c.Violation(sig+"/continuation/no-head-or-tail", fmt.Sprintf("after appending %v: Head err %v Tail err %v", hs, herr2, terr2), detail)
		return
	}
	want := top + 3
	for e.P[want+1] { // headers stored beyond a gap that the continuation has just filled
		want++
	}
	if nh.Height() != want {
		c.Violation(sig+"/continuation/head-does-not-reach-tip", fmt.Sprintf("recovered top %d, appended %v, Head is %d, expected %d", top, hs, nh.Height(), want), detail)
		return
	}
	e.checkChainRun(sig+"/continuation", detail)
}

// checkChainRun checks that [Tail,Head] is gap-free and resolvable (no set model needed).
func (e *env) checkChainRun(sig string, detail any) {
	head, tail, herr, terr := e.headTail()
	if herr != nil || terr != nil {
		return
	}
	if tail.Height() > head.Height() {
		e.c.Violation(sig+"/tail-above-head", fmt.Sprintf("Tail %d > Head %d", tail.Height(), head.Height()), detail)
		return
	}
	for h := tail.Height(); h <= head.Height(); h++ {
		if g, err := e.getByHeight(h); err != nil || g.Height() != h {
			e.c.Violation(sig+"/hole-between-tail-and-head", fmt.Sprintf("height %d in [Tail %d, Head %d] is not retrievable: %v", h, tail.Height(), head.Height(), err), detail)
			return
		}
	}
	if hh := e.st.Height(); hh != head.Height() {
		e.c.Violation(sig+"/height-ne-head", fmt.Sprintf("Height() %d, Head %d", hh, head.Height()), detail)
	}
}

// unitShape describes the write unit after which a crash image is cut.
func unitShape(u memds.Unit) string {
	var put, del, ptr int
	for _, op := range u.Ops {
		k := op.Key[strings.LastIndex(op.Key, "/")+1:]
		switch {
		case k == "head" || k == "tail":
			ptr++
		case op.Del:
			del++
		default:
			put++
		}
	}
	switch {
	case u.Batch && put > 0:
		return "flush-batch"
	case u.Batch && del > 0:
		return "delete-batch"
	case del > 0:
		return "direct-delete"
	case ptr > 0 && !u.Batch:
		if len(u.Ops) == 1 && u.Ops[0].Del {
			return "pointer-delete"
		}
		return "pointer-put"
	case ptr > 0:
		return "pointer-batch"
	}
	return "other"
}

func c06Crash(c *mon.Case, p c06P) {
	c.Bubble(func() {
		e := &env{c: c, d: memds.New(), cfg: p.Cfg, chain: newChain(p.Chain + 4), P: map[uint64]bool{}}
		if err := e.open(); err != nil {
			c.Trivial()
			c.Class("config-not-accepted")
			return
		}
		if err := e.start(); err != nil {
			c.Violation("start-fails-on-empty", fmt.Sprint(err), nil)
			return
		}
		kinds, ok := e.runHistory(p.Ops, true)
		if err := e.stop(); err != nil {
			c.Violation("stop-fails", fmt.Sprint(err), nil)
			return
		}
		if !ok {
			return
		}
		log := e.d.Log()
		c.Count("log_units", len(log))
		c.Class("flavour=%s wb=%d ops=%s", p.Cfg.Flavour, p.Cfg.WB, strings.Join(kinds, ","))
		// which operation kind produced each unit: approximate by the unit's shape and its neighbourhood
		inDelete := func(i int) string {
			// a crash point is "inside a deletion" if a direct-delete/delete-batch unit sits right before or after it
			for _, j := range []int{i - 1, i} {
				if j >= 0 && j < len(log) {
					if s := unitShape(log[j]); s == "direct-delete" || s == "delete-batch" {
						return "in-delete"
					}
				}
			}
			return "between-ops"
		}
		for pfx := 0; pfx <= len(log); pfx++ {
			after := "start"
			if pfx > 0 {
				after = unitShape(log[pfx-1])
			}
			sig := "crash/after=" + after + "/" + inDelete(pfx)
			c06Reopen(c, p.Cfg, e.d.ImageAt(pfx), e.chain, p.Chain, sig, map[string]any{"prefix": pfx, "of": len(log)})
			if c.Violated() {
				break
			}
			// crash followed by a transient write failure: the first write attempt(s) of the reopened Store fail
			if pfx%3 == 0 {
				img := e.d.ImageAt(pfx)
				nfail := 1 + pfx%2
				img.SetFailWrite(func(n int, u memds.Unit) bool { return n < nfail })
				c06Reopen(c, p.Cfg, img, e.chain, p.Chain, sig+"/first-writes-fail", map[string]any{"prefix": pfx, "of": len(log), "failing_writes": nfail})
				if c.Violated() {
					break
				}
			}
		}
	})
}

func c06Faults(c *mon.Case, p c06P) {
	c.Bubble(func() {
		e := &env{c: c, d: memds.New(), cfg: p.Cfg, chain: newChain(p.Chain + 4), P: map[uint64]bool{}}
		if err := e.open(); err != nil {
			c.Trivial()
			c.Class("config-not-accepted")
			return
		}
		fired := 0
		e.d.SetFailWrite(func(n int, u memds.Unit) bool {
			if n >= p.K && n < p.K+p.N {
				fired++
				return true
			}
			return false
		})
		if err := e.start(); err != nil {
			c.Violation("start-fails-on-empty", fmt.Sprint(err), nil)
			return
		}
		kinds, ok := e.runHistory(p.Ops, false)
		if ok {
			if err := e.sync(); err != nil {
				c.Violation("sync-fails", fmt.Sprint(err), nil)
			}
			e.checkChain("transient-faults/final", false)
		}
		if err := e.stop(); err != nil {
			c.Violation("stop-fails", fmt.Sprint(err), nil)
			return
		}
		c.Count("faults_fired", fired)
		c.Class("flavour=%s wb=%d n=%d fired=%d ops=%s", p.Cfg.Flavour, p.Cfg.WB, p.N, min(fired, 3), strings.Join(kinds, ","))
		if fired == 0 {
			c.Trivial()
		}
		if !ok || c.Violated() {
			return
		}
		// everything appended must be durable in the final image
		img := e.d.ImageAt(e.d.LogLen())
		for h := range e.P {
			hk := img.HasKey("/headers/" + e.chain.At(h).Hash().String())
			ik := img.HasKey(fmt.Sprintf("/headers/%d", h))
			if !hk || !ik {
				c.Violation("transient-faults/appended-header-not-durable", fmt.Sprintf("height %d appended before a clean Stop is missing from the datastore (hash key %v, height key %v) after %d transient write failures", h, hk, ik, fired), nil)
				return
			}
		}
		c06Reopen(c, p.Cfg, img, e.chain, p.Chain, "transient-faults/reopen", map[string]any{"fired": fired})
	})
}

// c06DelFaults: the last "delete" op of the history runs under injected write failures.
func c06DelFaults(c *mon.Case, p c06P) {
	c.Bubble(func() {
		e := &env{c: c, d: memds.New(), cfg: p.Cfg, chain: newChain(p.Chain + 4), P: map[uint64]bool{}}
		if err := e.open(); err != nil {
			c.Trivial()
			c.Class("config-not-accepted")
			return
		}
		if err := e.start(); err != nil {
			c.Violation("start-fails-on-empty", fmt.Sprint(err), nil)
			return
		}
		di := -1
		for i, op := range p.Ops {
			if op.Op == "delete" {
				di = i
			}
		}
		if di < 0 {
			c.T.Fatalf("delfaults without delete op")
		}
		if _, ok := e.runHistory(p.Ops[:di], true); !ok {
			return
		}
		_ = e.sync()
		fired := 0
		site := "not-fired"
		base := e.d.Attempts()
		e.d.SetFailWrite(func(n int, u memds.Unit) bool {
			if n >= base+p.K && n < base+p.K+p.N {
				if fired == 0 {
					site = unitSite(u)
				}
				fired++
				return true
			}
			return false
		})
		_, ok := e.runHistory(p.Ops[di:di+1], false)
		e.d.SetFailWrite(nil)
		side := p.Ops[di].Side
		c.Count("faults_fired", fired)
		if !ok {
			return
		}
		kinds, ok := e.runHistory(p.Ops[di+1:], false)
		if !ok {
			return
		}
		// NOTE: equality of Head/Tail across this clean Stop is deliberately not demanded here: after a DeleteRange
		// that returned an error the in-memory pointers describe its partial progress (C08 judges that state), and
		// a restart legitimately re-derives them from what is stored. The reopen oracle below is what C06 states
		// for transient write failures.
		if err := e.stop(); err != nil {
			c.Violation("stop-fails", fmt.Sprint(err), nil)
			return
		}
		c.Class("delete-faults side=%s flavour=%s wb=%d n=%d site=%s then=%s", side, p.Cfg.Flavour, p.Cfg.WB, p.N, site, strings.Join(kinds, ","))
		if fired == 0 {
			c.Trivial()
		}
		img := e.d.ImageAt(e.d.LogLen())
		c06Reopen(c, p.Cfg, img, e.chain, p.Chain, "delete-faults@"+site+"/"+side+"/reopen", map[string]any{"fired": fired, "k": p.K})
	})
}

// unitSite names the kind of write unit a fault hit (same vocabulary as C08's partial deletions).
func unitSite(u memds.Unit) string {
	ptr := ""
	for _, op := range u.Ops {
		switch op.Key {
		case "/headers/tail":
			ptr = "tail-pointer"
		case "/headers/head":
			ptr = "head-pointer"
		}
	}
	switch {
	case len(u.Ops) == 1 && ptr != "":
		return ptr + "-write"
	case len(u.Ops) == 1 && u.Ops[0].Del:
		return "header-key-delete"
	case len(u.Ops) == 1:
		return "header-key-put"
	case ptr != "":
		return "batch-commit-with-" + ptr
	}
	return "batch-commit"
}

func c06StopNow(c *mon.Case, p c06P) {
	c.Bubble(func() {
		ctl := sched.New(1)
		if p.FlushDelayUs > 0 {
			ctl.DelayAll("store.flush.begin", time.Duration(p.FlushDelayUs)*time.Microsecond)
		}
		defer ctl.Install()()
		e := &env{c: c, d: memds.New(), cfg: p.Cfg, chain: newChain(p.Chain + 4), P: map[uint64]bool{}}
		if err := e.open(); err != nil {
			c.Trivial()
			c.Class("config-not-accepted")
			return
		}
		if err := e.start(); err != nil {
			c.Violation("start-fails-on-empty", fmt.Sprint(err), nil)
			return
		}
		for _, op := range p.Ops {
			switch op.Op {
			case "append":
				if err := e.appendHs(op.Hs...); err != nil {
					c.Violation("append-fails", fmt.Sprint(err), nil)
					return
				}
			case "sync":
				_ = e.sync()
			case "stopnow":
				if err := e.stop(); err != nil {
					c.Violation("stop-fails", fmt.Sprint(err), nil)
					return
				}
			}
		}
		synctest.Wait()
		c.HookSig(ctl.Signature())
		c.Count("hook_hits_flush_begin", ctl.Hits()["store.flush.begin"])
		c.Class("stopnow flavour=%s wb=%d delay=%dus preloaded=%v", p.Cfg.Flavour, p.Cfg.WB, p.FlushDelayUs, len(p.Ops) > 2)
		// fresh object on the same datastore
		if err := e.open(); err != nil {
			c.Violation("reopen-fails", fmt.Sprint(err), nil)
			return
		}
		if err := e.start(); err != nil {
			c.Violation("stop-after-append/start-fails", fmt.Sprint(err), nil)
			return
		}
		defer e.teardown()
		e.checkChain("stop-after-append", false)
	})
}
