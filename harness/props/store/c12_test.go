//go:build verif

package storeprops

import (
	"context"
	"errors"
	"fmt"
	"sort"
	"strings"
	"sync"
	"sync/atomic"
	"testing"
	"testing/synctest"
	"time"

	header "github.com/celestiaorg/go-header"

	"verifharness/memds"
	"verifharness/mon"
	"verifharness/sched"
	"verifharness/vh"
)

// ---- C12: GetByHeight waits for a future height and wakes once that header is stored ----

type c12Reader struct {
	H        uint64 `json:"h"`
	StartUs  int    `json:"start_us"`            // virtual start time
	CancelUs int    `json:"cancel_us,omitempty"` // >0: cancel the context at this virtual time
}

type c12Append struct {
	AtUs int      `json:"at_us"`
	Hs   []uint64 `json:"hs"`
}

type c12P struct {
	WB       int            `json:"wb"`
	Flavour  string         `json:"flavour"`
	Base     int            `json:"base"` // heights 1..Base are stored and synced before anything starts
	Readers  []c12Reader    `json:"readers"`
	Appends  []c12Append    `json:"appends"`
	DelaysUs map[string]int `json:"delays_us,omitempty"` // scripted delay of every hit of a hook point
	Random   uint64         `json:"random,omitempty"`    // !=0: PRNG delays at all store hooks with this seed
	// Stall: the Nth datastore read of the height-index key of height H takes Ms of virtual time (one reader stuck in
	// a slow lookup); the other readers' cancellations and wake-ups must not wait for it
	Stall *c12Stall `json:"stall,omitempty"`
	// Mid: something happens to the Store at MidUs, while readers are already waiting: restart (Stop+Start of the
	// same object) | wipe (DeleteRange of the whole chain)
	Mid   string `json:"mid,omitempty"`
	MidUs int    `json:"mid_us,omitempty"`
}

type c12Stall struct {
	H   uint64 `json:"h"`
	Nth int    `json:"nth"`
	Ms  int    `json:"ms"`
}

var storeHooks = []string{"store.GetByHeight.beforeWait", "store.flush.begin", "store.flush.afterPendingAppend", "store.flush.afterNotify", "store.flush.afterAdvanceHead", "store.flush.afterCommit"}

func TestC12(t *testing.T) {
	r := mon.Open(t, "C12")
	mon.Register(r, "script", c12Run)
	mon.Register(r, "stall", c12StallRun)
	// one reader stuck in a slow datastore read (its first lookup or its re-check after subscribing) while another
	// reader is cancelled and a third one's header is appended. Runs in REAL time, outside a bubble: a goroutine that
	// waits for a mutex held by the stuck reader is not "durably blocked" for synctest, virtual time would stop.
	for rep := 0; rep < r.N(1, 10); rep++ {
		for _, wb := range []int{1, 64} {
			for _, nth := range []int{1, 2} {
				for _, gap := range []bool{false, true} {
					h3 := uint64(6)
					if gap {
						h3 = 8
					}
					p := c12P{WB: wb, Flavour: []string{"plain", "ctx"}[rep%2], Base: 5, Stall: &c12Stall{H: 11, Nth: nth},
						Readers: []c12Reader{{H: 11}, {H: 10}, {H: h3}}, Appends: []c12Append{{Hs: []uint64{h3}}}}
					mon.Emit(r, "stall", p, "stall")
				}
			}
		}
	}
	// scripted grid: append before / inside / after the reader's lookup..Wait window, contiguous or gapped,
	// combined with a delay at one of the flush phases
	for _, wb := range []int{1, 64} {
		for _, kind := range []string{"contiguous", "gapped", "gapped-then-fill"} {
			for _, readerDelay := range []int{0, 10000} {
				for _, appendAt := range []int{0, 5000, 20000} { // reader starts at 1000us
					for _, phase := range []string{"", "store.flush.afterPendingAppend", "store.flush.afterNotify", "store.flush.afterAdvanceHead"} {
						p := c12P{WB: wb, Flavour: "plain", Base: 5, DelaysUs: map[string]int{}}
						if readerDelay > 0 {
							p.DelaysUs["store.GetByHeight.beforeWait"] = readerDelay
						}
						if phase != "" {
							p.DelaysUs[phase] = 3000
						}
						h := uint64(6)
						if kind != "contiguous" {
							h = 8
						}
						p.Readers = []c12Reader{{H: h, StartUs: 1000}}
						p.Appends = []c12Append{{AtUs: appendAt, Hs: []uint64{h}}}
						if kind == "gapped-then-fill" {
							p.Appends = append(p.Appends, c12Append{AtUs: appendAt + 40000, Hs: []uint64{6, 7}})
						}
						mon.Emit(r, "script", p, "script/"+kind)
					}
				}
			}
		}
	}
	// empty store: readers wait before the store has any header; the first batch initialises Head/Tail/Height
	for _, wb := range []int{1, 64} {
		for _, first := range []uint64{1, 10} {
			for _, batch := range [][]uint64{{0}, {0, 1, 2}, {0, 2}} {
				for _, phase := range []string{"", "store.flush.afterPendingAppend", "store.flush.afterNotify"} {
					p := c12P{WB: wb, Flavour: "plain", Base: 0, DelaysUs: map[string]int{}}
					if phase != "" {
						p.DelaysUs[phase] = 3000
					}
					var hs []uint64
					for _, o := range batch {
						hs = append(hs, first+o)
						p.Readers = append(p.Readers, c12Reader{H: first + o, StartUs: 1000})
					}
					p.Readers = append(p.Readers, c12Reader{H: first + 3, StartUs: 1500})
					p.Appends = []c12Append{{AtUs: 5000, Hs: hs}, {AtUs: 30000, Hs: []uint64{first + 3}}}
					mon.Emit(r, "script", p, "script/empty-store")
				}
			}
		}
	}
	// readers keep waiting across a restart of the Store object / a wipe of the whole chain
	for _, wb := range []int{1, 64} {
		for _, mid := range []string{"restart", "wipe"} {
			for _, hs := range [][]uint64{{6}, {6, 7}, {8}} {
				p := c12P{WB: wb, Flavour: "plain", Base: 5, Mid: mid, MidUs: 10000}
				for _, h := range hs {
					p.Readers = append(p.Readers, c12Reader{H: h, StartUs: 1000})
				}
				p.Readers = append(p.Readers, c12Reader{H: 9, StartUs: 2000, CancelUs: 50000})
				p.Appends = []c12Append{{AtUs: 20000, Hs: hs}}
				mon.Emit(r, "script", p, "script/"+mid)
			}
		}
	}
	// PRNG cases
	rng := r.Rand("random")
	for i := 0; i < r.N(300, 10000); i++ {
		p := c12P{WB: []int{1, 2, 64}[rng.Intn(3)], Flavour: []string{"plain", "ctx"}[rng.Intn(2)], Base: 3 + rng.Intn(4), Random: uint64(1 + rng.Intn(1<<30))}
		top := uint64(p.Base)
		if rng.Intn(6) == 0 {
			p.Base, top = 0, uint64(rng.Intn(20)) // empty store; the appended heights start at top+1
		}
		nr := 1 + rng.Intn(4)
		for j := 0; j < nr; j++ {
			rd := c12Reader{H: top + 1 + uint64(rng.Intn(6)), StartUs: rng.Intn(30000)}
			if rng.Intn(5) == 0 {
				rd.CancelUs = rd.StartUs + 1 + rng.Intn(40000)
			}
			if rng.Intn(8) == 0 && p.Base > 0 {
				rd.H = 1 + uint64(rng.Intn(p.Base)) // already stored
			}
			p.Readers = append(p.Readers, rd)
		}
		// appends cover top+1..top+6 in random grouping/order
		hs := []uint64{top + 1, top + 2, top + 3, top + 4, top + 5, top + 6}
		mode := rng.Intn(3)
		if p.Base == 0 && mode == 1 {
			mode = 0 // on an empty store the lowest height goes first (appends below the tail are C04's business)
		}
		switch mode {
		case 1:
			rng.Shuffle(len(hs), func(a, b int) { hs[a], hs[b] = hs[b], hs[a] })
		case 2: // leave one height out for good (readers of it must end with their context)
			k := rng.Intn(len(hs))
			hs = append(hs[:k:k], hs[k+1:]...)
		}
		for len(hs) > 0 {
			n := 1 + rng.Intn(min(3, len(hs)))
			at := rng.Intn(50000)
			if p.Base == 0 {
				at = 1000*len(p.Appends) + rng.Intn(900) // ascending groups in ascending time
			}
			p.Appends = append(p.Appends, c12Append{AtUs: at, Hs: hs[:n:n]})
			hs = hs[n:]
		}
		mon.Emit(r, "script", p, "script/random")
	}
	r.Finish()
}

// promptBound separates "answered without waiting for the context" from "waited": datastore operations
// may take up to a few ms of virtual time each (slow-disk yields), contexts are an hour long.
const promptBound = 200 * time.Millisecond

type c12Res struct {
	doneAt       time.Duration // since t0
	done         bool
	hdr          *vh.Header
	err          error
	elapsed      time.Duration
	heightAtCall uint64
}

func c12Run(c *mon.Case, p c12P) {
	c.Bubble(func() {
		ctl := sched.New(p.Random)
		if p.Random != 0 {
			ctl.Random(storeHooks...)
		}
		for pt, us := range p.DelaysUs {
			ctl.DelayAll(pt, time.Duration(us)*time.Microsecond)
		}
		e := &env{c: c, d: memds.New(), cfg: Cfg{SC: 8, IC: 8, WB: p.WB, Flavour: p.Flavour}, chain: newChain(p.Base + 40), P: map[uint64]bool{}}
		if err := e.open(); err != nil {
			c.Trivial()
			return
		}
		if err := e.start(); err != nil {
			c.Violation("start-fails-on-empty", fmt.Sprint(err), nil)
			return
		}
		defer e.teardown()
		base := make([]uint64, p.Base)
		for i := range base {
			base[i] = uint64(i + 1)
		}
		if len(base) > 0 {
			if err := e.appendHs(base...); err != nil {
				c.Violation("append-fails", fmt.Sprint(err), nil)
				return
			}
			_ = e.sync()
		}
		defer ctl.Install()()
		if p.Random != 0 && p.Random%3 != 0 {
			// a slow disk: datastore operations take PRNG virtual time before and after they take effect
			var n atomic.Uint64
			e.d.Yield = func(op, key string) {
				x := (n.Add(1) + p.Random) * 0x9E3779B97F4A7C15
				if d := []time.Duration{0, 0, 0, time.Microsecond, 50 * time.Microsecond, 500 * time.Microsecond, 3 * time.Millisecond}[(x>>40)%7]; d > 0 {
					time.Sleep(d)
				}
			}
			defer func() { e.d.Yield = nil }()
		}

		t0 := time.Now()
		at := func(us int) {
			if d := t0.Add(time.Duration(us) * time.Microsecond).Sub(time.Now()); d > 0 {
				time.Sleep(d)
			}
		}
		res := make([]c12Res, len(p.Readers))
		var mu sync.Mutex
		var wg sync.WaitGroup
		cancels := make([]context.CancelFunc, len(p.Readers))
		for i, rd := range p.Readers {
			ctx, cancel := context.WithTimeout(context.Background(), time.Hour)
			cancels[i] = cancel
			wg.Add(1)
			go func() {
				defer wg.Done()
				at(rd.StartUs)
				st := time.Now()
				hAt := e.st.Height()
				h, err := e.st.GetByHeight(ctx, rd.H)
				mu.Lock()
				res[i] = c12Res{done: true, doneAt: time.Since(t0), hdr: h, err: err, elapsed: time.Since(st), heightAtCall: hAt}
				mu.Unlock()
			}()
			if rd.CancelUs > 0 {
				wg.Add(1)
				go func() {
					defer wg.Done()
					at(rd.CancelUs)
					cancel()
				}()
			}
		}
		if p.Mid != "" {
			wg.Add(1)
			go func() {
				defer wg.Done()
				at(p.MidUs)
				switch p.Mid {
				case "restart":
					if err := e.stop(); err != nil {
						c.Violation("stop-fails", fmt.Sprint(err), nil)
						return
					}
					if err := e.start(); err != nil {
						c.Violation("restart-fails", fmt.Sprint(err), nil)
					}
				case "wipe":
					ctx, cancel := vctx(time.Minute)
					if err := e.st.DeleteRange(ctx, 1, uint64(p.Base)+1); err != nil {
						c.Violation("wipe-fails", fmt.Sprint(err), nil)
					}
					cancel()
				}
			}()
		}
		appended := map[uint64]bool{}
		appendedAt := map[uint64]int{}
		var amu sync.Mutex
		for _, ap := range p.Appends {
			wg.Add(1)
			go func() {
				defer wg.Done()
				at(ap.AtUs)
				amu.Lock()
				err := e.appendHs(ap.Hs...)
				for _, h := range ap.Hs {
					appended[h] = true
					appendedAt[h] = ap.AtUs
				}
				amu.Unlock()
				if err != nil {
					c.Violation("append-fails", fmt.Sprint(err), nil)
				}
			}()
		}
		// wait (in virtual time) until all appends were issued and a Sync after the last one returned
		lastAppend := 0
		for _, ap := range p.Appends {
			lastAppend = max(lastAppend, ap.AtUs)
		}
		lastCancel := 0
		for _, rd := range p.Readers {
			lastCancel = max(lastCancel, rd.CancelUs, rd.StartUs)
		}
		at(max(lastAppend, lastCancel) + 1)
		synctest.Wait()
		if err := e.sync(); err != nil {
			c.Violation("sync-fails", fmt.Sprint(err), nil)
		}
		// generous virtual settling time (all scripted delays are <= 10ms per hit), then quiescence
		time.Sleep(2 * time.Second)
		synctest.Wait()

		// ---- oracle at quiescence ----
		var classes []string
		mu.Lock()
		for i, rd := range p.Readers {
			rs := res[i]
			kind := "future"
			if rd.H <= uint64(p.Base) {
				kind = "stored"
			}
			contig := "contiguous-run"
			lowest := uint64(p.Base) + 1
			if p.Base == 0 {
				contig = "first-batch-run"
				lowest = rd.H
				for h := range appended {
					lowest = min(lowest, h)
				}
			}
			for h := lowest; h < rd.H; h++ {
				if !appended[h] {
					contig = "beyond-gap"
				}
			}
			switch {
			case appended[rd.H] || rd.H <= uint64(p.Base):
				if rd.CancelUs > 0 {
					// cancelled reader: must have returned; header or ctx error both fine
					if !rs.done {
						c.Violation("cancelled-reader-still-blocked", fmt.Sprintf("reader of %d cancelled at %dus is still blocked at quiescence", rd.H, rd.CancelUs), nil)
					} else if rs.err == nil && (rs.hdr == nil || rs.hdr.Height() != rd.H) {
						c.Violation("wrong-header", fmt.Sprintf("reader of %d got %v", rd.H, rs.hdr), nil)
					}
					classes = append(classes, kind+"/cancelled")
					break
				}
				if !rs.done {
					c.Violation("lost-wakeup/"+contig+"/reader-still-blocked", fmt.Sprintf("height %d is stored and synced, the bubble is quiescent, but GetByHeight(%d) is still blocked (Height() at call %d, now %d)", rd.H, rd.H, rs.heightAtCall, e.st.Height()), nil)
				} else if rs.err != nil {
					c.Violation("lost-wakeup/"+contig+"/reader-error", fmt.Sprintf("GetByHeight(%d) returned %v although the header was appended", rd.H, rs.err), nil)
				} else if rs.hdr == nil || rs.hdr.Height() != rd.H || !e.chain.Canonical(rs.hdr) {
					c.Violation("wrong-header", fmt.Sprintf("reader of %d got %v", rd.H, rs.hdr), nil)
				}
				if kind == "stored" && rs.done && rs.elapsed > promptBound {
					c.Violation("stored-height-not-prompt", fmt.Sprintf("GetByHeight(%d) for a stored height took %v virtual", rd.H, rs.elapsed), nil)
				}
				classes = append(classes, kind+"/"+contig+"/served")
			default:
				// never appended: must still be blocked (or have ended with its own context)
				if rs.done && rs.err == nil {
					c.Violation("returned-unstored-header", fmt.Sprintf("GetByHeight(%d) returned %v but that height was never appended", rd.H, rs.hdr), nil)
				}
				if rd.CancelUs > 0 && !rs.done {
					c.Violation("cancelled-reader-still-blocked", fmt.Sprintf("reader of never-appended %d cancelled at %dus is still blocked", rd.H, rd.CancelUs), nil)
				}
				if rd.H <= e.st.Height() && rd.CancelUs == 0 {
					// below the published height and not stored: a *new* call must fail promptly with ErrNotFound
					st := time.Now()
					ctx, cancel := vctx(time.Minute)
					_, err := e.st.GetByHeight(ctx, rd.H)
					cancel()
					if !errors.Is(err, header.ErrNotFound) || time.Since(st) > promptBound {
						c.Violation("missing-below-height-not-prompt-notfound", fmt.Sprintf("GetByHeight(%d) with Height()=%d: err=%v after %v", rd.H, e.st.Height(), err, time.Since(st)), nil)
					}
				}
				classes = append(classes, kind+"/never-appended")
			}
		}
		mu.Unlock()
		// release everyone so the bubble can end
		for _, cancel := range cancels {
			cancel()
		}
		wg.Wait()
		synctest.Wait()
		mu.Lock()
		for i := range res {
			if !res[i].done {
				c.Violation("cancel-does-not-release", fmt.Sprintf("reader %d still blocked after cancel", i), nil)
			}
		}
		mu.Unlock()
		hits := ctl.Hits()
		for _, pt := range storeHooks {
			c.Count("hook:"+pt, hits[pt])
		}
		c.HookSig(ctl.Signature())
		sort.Strings(classes)
		var dk []string
		for k, v := range p.DelaysUs {
			dk = append(dk, fmt.Sprintf("%s=%d", k[strings.LastIndex(k, ".")+1:], v))
		}
		sort.Strings(dk)
		mode := "scripted:" + strings.Join(dk, ",")
		if p.Mid != "" {
			mode += " mid=" + p.Mid
		}
		if p.Random != 0 {
			mode = "random"
		}
		c.Class("wb=%d %s readers=%s appends=%d %s", p.WB, p.Flavour, strings.Join(classes, "+"), len(p.Appends), mode)
	})
}

// stallBound is a REAL-time bound (this runner is not in a bubble): how long a cancelled or served reader may take
// to return while another reader is parked inside a datastore read. The unchanged code needs microseconds.
const stallBound = 20 * time.Second

// c12StallRun: reader 0 is parked inside the Nth datastore read of its height-index key; then reader 1 is cancelled
// and reader 2's header is appended. Neither may wait for reader 0.
func c12StallRun(c *mon.Case, p c12P) {
	e := &env{c: c, d: memds.New(), cfg: Cfg{SC: 8, IC: 8, WB: p.WB, Flavour: p.Flavour}, chain: newChain(p.Base + 40), P: map[uint64]bool{}}
	if err := e.open(); err != nil {
		c.Trivial()
		return
	}
	// the datastore hook is installed before the Store starts and never changed afterwards
	parked, release := make(chan struct{}), make(chan struct{})
	var reads atomic.Int64
	key := fmt.Sprintf("/headers/%d", p.Stall.H)
	e.d.Yield = func(op, k string) {
		if (op == "get" || op == "txnget") && k == key && int(reads.Add(1)) == p.Stall.Nth {
			close(parked)
			select {
			case <-release:
			case <-time.After(3 * stallBound):
			}
		}
	}
	if err := e.start(); err != nil {
		c.Violation("start-fails-on-empty", fmt.Sprint(err), nil)
		return
	}
	defer e.teardown()
	base := make([]uint64, p.Base)
	for i := range base {
		base[i] = uint64(i + 1)
	}
	if err := e.appendHs(base...); err != nil {
		c.Violation("append-fails", fmt.Sprint(err), nil)
		return
	}
	_ = e.st.Sync(context.Background())
	type out struct {
		h   *vh.Header
		err error
	}
	ctxs := make([]context.Context, 3)
	cancels := make([]context.CancelFunc, 3)
	dones := make([]chan out, 3)
	startReader := func(i int) {
		ctxs[i], cancels[i] = context.WithCancel(context.Background())
		dones[i] = make(chan out, 1)
		go func() {
			h, err := e.st.GetByHeight(ctxs[i], p.Readers[i].H)
			dones[i] <- out{h, err}
		}()
	}
	// readers 1 and 2 first, so that they are registered waiters; give them (real) time to get there
	startReader(1)
	startReader(2)
	time.Sleep(20 * time.Millisecond)
	startReader(0)
	released := false
	defer func() {
		if !released {
			close(release)
		}
		for i := range cancels {
			cancels[i]()
		}
	}()
	select {
	case <-parked:
	case <-time.After(stallBound):
		c.Inconclusive("reader 0 did not reach datastore read #%d of %s", p.Stall.Nth, key)
		return
	}
	c.Count("stalled_reads", 1)
	c.Class("stall wb=%d %s read#%d appended=%d", p.WB, p.Flavour, p.Stall.Nth, p.Readers[2].H)
	// (a) cancellation releases reader 1 although reader 0 is stuck
	cancels[1]()
	select {
	case o := <-dones[1]:
		if o.err == nil {
			c.Violation("returned-unstored-header", fmt.Sprintf("cancelled reader of %d got %v", p.Readers[1].H, o.h), nil)
		}
	case <-time.After(stallBound):
		c.Violation("cancel-does-not-release-while-another-reader-is-in-a-slow-lookup", fmt.Sprintf("reader of %d was cancelled but has not returned after %v (real time) while the reader of %d sits in datastore read #%d", p.Readers[1].H, stallBound, p.Stall.H, p.Stall.Nth), nil)
	}
	// (b) the append wakes reader 2 although reader 0 is stuck
	if err := e.appendHs(p.Appends[0].Hs...); err != nil {
		c.Violation("append-fails", fmt.Sprint(err), nil)
		return
	}
	select {
	case o := <-dones[2]:
		if o.err != nil || o.h == nil || o.h.Height() != p.Readers[2].H {
			c.Violation("lost-wakeup/stalled-neighbour/reader-error", fmt.Sprintf("reader of %d: %v, %v", p.Readers[2].H, o.h, o.err), nil)
		}
	case <-time.After(stallBound):
		c.Violation("wakeup-waits-for-another-readers-slow-lookup", fmt.Sprintf("height %d was appended but its reader has not returned after %v (real time) while the reader of %d sits in datastore read #%d", p.Readers[2].H, stallBound, p.Stall.H, p.Stall.Nth), nil)
	}
	released = true
	close(release)
	cancels[0]()
	select {
	case <-dones[0]:
	case <-time.After(stallBound):
		c.Violation("cancel-does-not-release", "the stalled reader did not return after its read was released and its context cancelled", nil)
	}
}
