//go:build verif

package storeprops

import (
	"context"
	"fmt"
	"sort"
	"strings"
	"sync"
	"sync/atomic"
	"testing"
	"testing/synctest"
	"time"

	"github.com/anishathalye/porcupine"

	"verifharness/memds"
	"verifharness/mon"
	"verifharness/sched"
)

// ---- C17: Concurrent Store use keeps Head monotone and readers never see torn state ----

type c17P struct {
	Cfg           Cfg       `json:"cfg"`
	Base          int       `json:"base"`    // 1..Base stored and synced before the concurrent phase
	N             int       `json:"n"`       // highest height
	Writers       [][][]int `json:"writers"` // per writer: list of batches (heights)
	Readers       int       `json:"readers"`
	Iter          int       `json:"iter"`            // reads per reader
	DelTo         int       `json:"del_to"`          // >0: a deleter runs DeleteRange(Tail, DelTo) (DelTo <= Base)
	DsYield       uint64    `json:"ds_yield"`        // !=0: PRNG virtual delays inside datastore operations
	AtHead        bool      `json:"at_head"`         // the deleter deletes everything below the head it observes (to == current Head)
	SlowPtrUs     int       `json:"slow_ptr_us"`     // >0: datastore writes of the head/tail pointer keys take this long (virtual)
	WriterDelayUs int       `json:"writer_delay_us"` // writers start this late (virtual)
	Sched         uint64    `json:"sched"`           // PRNG seed of the yield-point delays (0 = none)
	PaceUs        int       `json:"pace_us"`         // max virtual pause between steps of a client
	// Zombie: when the deleter is about to remove the datastore keys of height DelTo-1, a reader looks that header up
	// by hash and by height (cold caches); its datastore answers travel back slowly (ZombieLagUs) so that they arrive
	// after the deletion finished
	Zombie      bool `json:"zombie,omitempty"`
	ZombieLagUs int  `json:"zombie_lag_us,omitempty"`
	// WriterAtTailPut: writers released by WriterDelayUs < 0 start when the deleter writes the TAIL pointer
	WriterAtTailPut bool `json:"writer_at_tail_put,omitempty"`
}

type hop struct {
	kind string // append | head
	set  uint64 // bitmask of heights (append)
	head int    // observed head height (head)
}

func TestC17(t *testing.T) {
	r := mon.Open(t, "C17")
	mon.Register(r, "concurrent", c17Run)
	rng := r.Rand("gen")
	for i := 0; i < r.N(1500, 40000); i++ {
		p := c17P{Cfg: Cfg{SC: []int{2, 8, 64}[rng.Intn(3)], IC: []int{2, 8, 64}[rng.Intn(3)], WB: []int{1, 2, 4, 64}[rng.Intn(4)], Flavour: []string{"plain", "ctx"}[rng.Intn(2)]},
			Base: 3 + rng.Intn(4), Readers: 2 + rng.Intn(3), Iter: 4 + rng.Intn(5), Sched: uint64(rng.Intn(1 << 30)), PaceUs: []int{0, 50, 2000}[rng.Intn(3)]}
		p.Cfg.Metrics = i%6 == 5
		p.N = p.Base + 6 + rng.Intn(14)
		nw := 2 + rng.Intn(3)
		p.Writers = make([][][]int, nw)
		// partition Base+1..N into batches, hand them to writers; some overlap; per-writer order shuffled sometimes
		var batches [][]int
		for h := p.Base + 1; h <= p.N; {
			sz := 1 + rng.Intn(4)
			var b []int
			for k := 0; k < sz && h <= p.N; k++ {
				b = append(b, h)
				h++
			}
			batches = append(batches, b)
		}
		for bi, b := range batches {
			w := rng.Intn(nw)
			p.Writers[w] = append(p.Writers[w], b)
			if rng.Intn(5) == 0 { // overlapping append by another writer
				p.Writers[(w+1)%nw] = append(p.Writers[(w+1)%nw], b)
			}
			_ = bi
		}
		if rng.Intn(2) == 0 {
			for w := range p.Writers {
				rng.Shuffle(len(p.Writers[w]), func(a, b int) { p.Writers[w][a], p.Writers[w][b] = p.Writers[w][b], p.Writers[w][a] })
			}
		}
		switch rng.Intn(4) {
		case 0:
			p.DelTo = 2 + rng.Intn(p.Base-1) // inside the pre-synced base
		case 1:
			p.DelTo = p.Base + 1 + rng.Intn(p.N-p.Base-1) // reaches into what the writers append
		case 2:
			p.DelTo = p.Base + 1 + rng.Intn(p.N-p.Base-1)
			p.AtHead = true
		}
		if rng.Intn(6) != 0 {
			p.DsYield = uint64(1 + rng.Intn(1<<30))
		}
		if p.DelTo > p.Base {
			// a header re-appended after the deleter removed it is legitimately stored again; keep the
			// outcome decidable by appending every height below DelTo exactly once
			seen := map[int]bool{}
			for w := range p.Writers {
				var keep [][]int
				for _, b := range p.Writers[w] {
					if (p.AtHead || b[0] < p.DelTo) && seen[b[0]] {
						continue
					}
					seen[b[0]] = true
					keep = append(keep, b)
				}
				p.Writers[w] = keep
			}
		}
		mon.Emit(r, "concurrent", p, "concurrent")
	}
	// targeted: a tail-side deletion reaching exactly up to the head it observes, with slow pointer writes,
	// while a writer keeps appending single headers and readers sample Head() densely
	for i := 0; i < r.N(90, 900); i++ {
		base := 6 + rng.Intn(6)
		S := []int{800, 2500, 6000}[i%3]
		p := c17P{Cfg: Cfg{SC: 64, IC: 64, WB: []int{1, 2, 4, 64}[i%4], Flavour: []string{"plain", "ctx"}[(i/4)%2]}, Base: base, N: base + 2 + rng.Intn(3),
			Readers: 3, Iter: 40, PaceUs: S / 3, DelTo: base, AtHead: true, SlowPtrUs: S,
			// the deleter spends 2S writing the tail pointer, then 2S writing the head pointer (if it does): the
			// writer's first append lands inside or around that second window
			WriterDelayUs: []int{-1, -1, 3 * S, 5 * S / 2, S}[(i/3)%5], DsYield: uint64(1 + rng.Intn(1<<20))}
		var bs [][]int
		for h := base + 1; h <= p.N; h++ {
			bs = append(bs, []int{h})
		}
		p.Writers = [][][]int{bs}
		mon.Emit(r, "concurrent", p, "concurrent")
	}
	// targeted: a reader of the last height being deleted, released exactly when the deleter reaches that height,
	// then appends at the head (which make the flush loop reconsider the tail)
	for i := 0; i < r.N(48, 600); i++ {
		base := 6 + rng.Intn(5)
		p := c17P{Cfg: Cfg{SC: []int{2, 64, 8, 64}[i%4], IC: []int{2, 64, 64, 8}[i%4], WB: []int{1, 4, 64}[(i/4)%3], Flavour: []string{"plain", "ctx"}[(i/12)%2]}, Base: base, N: base + 3,
			Readers: 2, Iter: 6, PaceUs: 300, DelTo: base - 1 - (i/24)%2, WriterDelayUs: 20000, Zombie: true, ZombieLagUs: []int{0, 500, 5000, 15000}[(i/2)%4]}
		p.Writers = [][][]int{{{base + 1}, {base + 2, base + 3}}}
		mon.Emit(r, "concurrent", p, "concurrent")
		if i%2 == 0 {
			// the appends land while the deleter is still writing the new tail pointer (slow pointer write)
			q := p
			q.SlowPtrUs, q.WriterDelayUs, q.WriterAtTailPut = 3000, -1, true
			q.ZombieLagUs = []int{0, 300, 1500}[(i/2)%3]
			mon.Emit(r, "concurrent", q, "concurrent")
		}
	}
	r.Finish()
}

func topOf(present uint64) int {
	t := 0
	for present&(1<<uint(t+1)) != 0 {
		t++
	}
	return t
}

var c17Model = porcupine.Model{
	Init: func() any { return uint64(0) },
	Step: func(state, input, output any) (bool, any) {
		st := state.(uint64)
		in := input.(hop)
		switch in.kind {
		case "append":
			return true, st | in.set
		default:
			return output.(int) == topOf(st), st
		}
	},
	Equal: func(a, b any) bool { return a.(uint64) == b.(uint64) },
	DescribeOperation: func(input, output any) string {
		in := input.(hop)
		if in.kind == "append" {
			return fmt.Sprintf("AppendSync(%b)", in.set)
		}
		return fmt.Sprintf("Head()->%d", output.(int))
	},
}

func c17Run(c *mon.Case, p c17P) {
	c.Bubble(func() {
		ctl := sched.New(p.Sched)
		if p.Sched != 0 {
			ctl.Random(append(storeHooks, "store.DeleteRange.afterSync")...)
		}
		e := &env{c: c, d: memds.New(), cfg: p.Cfg, chain: newChain(p.N + 4), P: map[uint64]bool{}, ghostCheck: true}
		if err := e.open(); err != nil {
			c.Trivial()
			return
		}
		if err := e.start(); err != nil {
			c.Violation("start-fails-on-empty", fmt.Sprint(err), nil)
			return
		}
		defer e.teardown()
		base := make([]uint64, p.Base)
		var baseSet uint64
		for i := range base {
			base[i] = uint64(i + 1)
			baseSet |= 1 << uint(i+1)
		}
		if err := e.appendHs(base...); err != nil {
			c.Violation("append-fails", fmt.Sprint(err), nil)
			return
		}
		_ = e.sync()
		defer ctl.Install()()
		ptrWrite := make(chan struct{})
		var ptrOnce sync.Once
		zTrig := make(chan struct{})
		var zOnce sync.Once
		zHashKey, zHeightKey := "", ""
		if p.Zombie && p.DelTo > 1 {
			zHashKey = "/headers/" + e.chain.At(uint64(p.DelTo-1)).Hash().String()
			zHeightKey = fmt.Sprintf("/headers/%d", p.DelTo-1)
		}
		var deleting atomic.Bool
		if p.DsYield != 0 || p.SlowPtrUs > 0 || p.Zombie {
			var n atomic.Uint64
			e.d.Yield = func(op, key string) {
				if p.Zombie {
					switch {
					case (op == "delete" && key == zHashKey) || (op == "commit" && strings.Contains(key, "-"+zHashKey+" ")):
						// the deleter is about to remove the header's keys: release the reader and give it a head start
						zOnce.Do(func() { close(zTrig) })
						time.Sleep(200 * time.Microsecond)
					case (op == "get-return" || op == "txnget-return") && (key == zHashKey || key == zHeightKey) && deleting.Load():
						// the reader's answers travel back slowly
						time.Sleep(time.Duration(p.ZombieLagUs) * time.Microsecond)
					}
				}
				if op == "put" && (strings.HasSuffix(key, "/head") || (p.WriterAtTailPut && strings.HasSuffix(key, "/tail") && deleting.Load())) {
					ptrOnce.Do(func() { close(ptrWrite) })
				}
				if p.SlowPtrUs > 0 && (op == "put" || op == "put-return") && (strings.HasSuffix(key, "/head") || strings.HasSuffix(key, "/tail")) {
					time.Sleep(time.Duration(p.SlowPtrUs) * time.Microsecond)
					return
				}
				if p.DsYield == 0 {
					return
				}
				x := (n.Add(1) + p.DsYield) * 0x9E3779B97F4A7C15
				if d := []time.Duration{0, 0, 0, time.Microsecond, 20 * time.Microsecond, 300 * time.Microsecond, 2 * time.Millisecond}[(x>>40)%7]; d > 0 {
					time.Sleep(d)
				}
			}
			defer func() { e.d.Yield = nil }()
		}

		var clock atomic.Int64
		var hmu sync.Mutex
		ops := []porcupine.Operation{{ClientId: 0, Input: hop{kind: "append", set: baseSet}, Call: clock.Add(1), Output: 0, Return: clock.Add(1)}}
		record := func(client int, in hop, out any, call, ret int64) {
			hmu.Lock()
			ops = append(ops, porcupine.Operation{ClientId: client, Input: in, Call: call, Output: out, Return: ret})
			hmu.Unlock()
		}
		pace := func(seed *uint64) {
			if p.PaceUs == 0 {
				return
			}
			*seed = *seed*6364136223846793005 + 1442695040888963407
			time.Sleep(time.Duration((*seed>>33)%uint64(p.PaceUs)) * time.Microsecond)
		}
		var wg sync.WaitGroup
		var appendedMu sync.Mutex
		delTo := uint64(p.DelTo)
		// writers
		for w, batches := range p.Writers {
			wg.Add(1)
			go func() {
				defer wg.Done()
				seed := uint64(w+1) * 7919
				if p.WriterDelayUs > 0 {
					time.Sleep(time.Duration(p.WriterDelayUs) * time.Microsecond)
				} else if p.WriterDelayUs < 0 {
					<-ptrWrite // start appending exactly while the deleter writes a pointer directly (or once it is done)
				}
				for _, b := range batches {
					pace(&seed)
					hs := make([]uint64, len(b))
					var set uint64
					for i, h := range b {
						hs[i] = uint64(h)
						set |= 1 << uint(h)
					}
					call := clock.Add(1)
					ctx, cancel := vctx(time.Hour)
					batch := e.chain.Range(hs[0], hs[0]) // placeholder to keep types; real batch below
					batch = batch[:0]
					for _, h := range hs {
						batch = append(batch, e.chain.At(h))
					}
					err := e.st.Append(ctx, batch...)
					if err == nil {
						err = e.st.Sync(ctx)
					}
					cancel()
					ret := clock.Add(1)
					if err != nil {
						c.Violation("append-or-sync-fails", fmt.Sprint(err), nil)
						return
					}
					record(1+w, hop{kind: "append", set: set}, 0, call, ret)
					appendedMu.Lock()
					for _, h := range hs {
						e.P[h] = true
					}
					appendedMu.Unlock()
					// (3) every header whose Append has been followed by Sync is readable
					for _, h := range hs {
						if p.AtHead || h < delTo {
							continue // may legitimately be deleted already
						}
						rctx, rc := vctx(50 * time.Millisecond)
						g, err := e.st.GetByHeight(rctx, h)
						rc()
						if err != nil || g.Height() != h {
							c.Violation("synced-header-unreadable/by-height", fmt.Sprintf("GetByHeight(%d) after Append+Sync returned: %v", h, err), nil)
						}
						if _, err := e.st.Get(context.Background(), e.chain.At(h).Hash()); err != nil {
							c.Violation("synced-header-unreadable/by-hash", fmt.Sprintf("Get(hash of %d) after Append+Sync returned: %v", h, err), nil)
						}
					}
				}
			}()
		}
		// readers
		for rd := 0; rd < p.Readers; rd++ {
			wg.Add(1)
			go func() {
				defer wg.Done()
				seed := uint64(rd+1) * 104729
				lastHead, lastHeight := uint64(0), uint64(0)
				for i := 0; i < p.Iter; i++ {
					pace(&seed)
					call := clock.Add(1)
					head, err := e.st.Head(context.Background())
					ret := clock.Add(1)
					if err != nil {
						c.Violation("head-error-during-appends", fmt.Sprint(err), nil)
						return
					}
					record(100+rd, hop{kind: "head"}, int(head.Height()), call, ret)
					c.Count("head_reads", 1)
					if head.Height() < lastHead {
						c.Violation("head-decreased", fmt.Sprintf("reader saw Head %d after %d", head.Height(), lastHead), nil)
					}
					lastHead = head.Height()
					hh := e.st.Height()
					if hh < lastHeight {
						c.Violation("height-decreased", fmt.Sprintf("reader saw Height() %d after %d", hh, lastHeight), nil)
					}
					lastHeight = hh
					// (2) the header returned by Head() is itself retrievable by height and by hash
					rctx, rc := vctx(50 * time.Millisecond)
					g, err := e.st.GetByHeight(rctx, head.Height())
					rc()
					if err != nil || g.Hash().String() != head.Hash().String() {
						c.Violation("head-not-retrievable/by-height", fmt.Sprintf("GetByHeight(Head %d): %v", head.Height(), err), nil)
					}
					if _, err := e.st.Get(context.Background(), head.Hash()); err != nil {
						c.Violation("head-not-retrievable/by-hash", fmt.Sprintf("Get(Head %d hash): %v", head.Height(), err), nil)
					}
					if !e.chain.Canonical(head) {
						c.Violation("head-not-an-appended-header", fmt.Sprint(head), nil)
					}
				}
			}()
		}
		if p.Zombie && zHashKey != "" {
			zh := uint64(p.DelTo - 1)
			for k := 0; k < 2; k++ {
				wg.Add(1)
				go func() {
					defer wg.Done()
					select {
					case <-zTrig:
					case <-time.After(time.Minute):
						return
					}
					c.Count("zombie_reads", 1)
					rctx, rc := vctx(50 * time.Millisecond)
					defer rc()
					if k == 0 {
						_, _ = e.st.Get(rctx, e.chain.At(zh).Hash())
					} else {
						_, _ = e.st.GetByHeight(rctx, zh)
					}
				}()
			}
		}
		// deleter (tail side, only base heights)
		var delErr error
		delDone := false
		if delTo > 0 {
			wg.Add(1)
			go func() {
				defer wg.Done()
				seed := uint64(424243)
				pace(&seed)
				for { // wait until the chain has reached delTo
					if h, err := e.st.Head(context.Background()); err == nil && h.Height() >= delTo {
						break
					}
					time.Sleep(100 * time.Microsecond)
				}
				if p.AtHead {
					h, _ := e.st.Head(context.Background())
					delTo = h.Height()
				}
				ctx, cancel := vctx(time.Hour)
				deleting.Store(true)
				delErr = e.st.DeleteRange(ctx, 1, delTo)
				deleting.Store(false)
				cancel()
				delDone = true
				ptrOnce.Do(func() { close(ptrWrite) })
			}()
		}
		wg.Wait()
		synctest.Wait()
		if err := e.sync(); err != nil {
			c.Violation("sync-fails", fmt.Sprint(err), nil)
			return
		}
		time.Sleep(time.Second)
		synctest.Wait()
		c.HookSig(ctl.Signature())
		for pt, n := range ctl.Hits() {
			c.Count("hook:"+pt, n)
		}
		// (6) deleter outcome
		tag := "no-deleter"
		if delTo > 0 {
			tag = "deleter"
			if delDone && delErr == nil {
				// C17 only demands a gap-free chain here. A header deleted while the flush loop was already
				// writing it can come back (and Tail recede over it again); that is counted, not judged:
				// permanence of deletions is C08's clause and is not quantified over schedules.
				resurrected := 0
				_, tl, _, _ := e.headTail()
				for h := uint64(1); h < delTo; h++ {
					if _, err := e.getByHeight(h); err == nil {
						resurrected++
						if tl != nil && h >= tl.Height() {
							continue // Tail receded over it again: it is part of the chain
						}
					}
					delete(e.P, h) // gone, or a stray copy below Tail that is not part of the chain
				}
				c.Count("deleted_headers_resurrected_by_concurrent_flush", resurrected)
				_, tail, _, terr := e.headTail()
				if terr != nil || tail.Height() > delTo {
					c.Violation("deleter/tail-beyond-to", fmt.Sprintf("DeleteRange(1,%d) returned nil but Tail is %v (%v)", delTo, tail, terr), nil)
				}
			} else {
				c.Violation("deleter/valid-tail-delete-fails", fmt.Sprintf("DeleteRange(1,%d) racing with appends: %v", delTo, delErr), nil)
			}
		}
		// (4) final state equals the sequential result of the same appends
		e.anchored = true
		e.checkChain("final/"+tag, true)
		// ... and it is what is really stored, not something served from a cache: a fresh Store object on the same
		// datastore (after a clean Stop) must show the same chain
		if !c.Violated() {
			hd0, tl0, herr0, terr0 := e.headTail()
			if err := e.stop(); err != nil {
				c.Violation("stop-fails", fmt.Sprint(err), nil)
			} else if err := e.open(); err != nil {
				c.Violation("reopen-fails", fmt.Sprint(err), nil)
			} else if err := e.start(); err != nil {
				c.Violation("final/restart-fails/"+tag, fmt.Sprintf("Start of a fresh Store on the same datastore: %v", err), nil)
			} else {
				c.Count("final_restarts", 1)
				hd1, tl1, herr1, terr1 := e.headTail()
				if herr0 == nil && terr0 == nil && (herr1 != nil || terr1 != nil || hd1.Height() != hd0.Height() || tl1.Height() != tl0.Height()) {
					c.Violation("final/restart-changes-head-or-tail/"+tag, fmt.Sprintf("before Stop: Tail %v Head %v; fresh Store: Tail %v (%v) Head %v (%v)", tl0, hd0, tl1, terr1, hd1, herr1), nil)
				}
				e.checkChain("final-after-restart/"+tag, true)
			}
		}
		head, _, herr, _ := e.headTail()
		if herr == nil && int(head.Height()) != p.N {
			c.Violation("final/head-below-tip/"+tag, fmt.Sprintf("all of 1..%d appended and synced but Head is %d", p.N, head.Height()), nil)
		}
		// (5) linearizability of {AppendSync, Head} against the sequential specification
		hmu.Lock()
		hist := append([]porcupine.Operation(nil), ops...)
		hmu.Unlock()
		c.Count("history_ops", len(hist))
		res, info := porcupine.CheckOperationsVerbose(c17Model, hist, 30*time.Second)
		_ = info
		switch res {
		case porcupine.Illegal:
			var lines []string
			sort.Slice(hist, func(i, j int) bool { return hist[i].Call < hist[j].Call })
			for _, o := range hist {
				lines = append(lines, fmt.Sprintf("c%d [%d,%d] %s", o.ClientId, o.Call, o.Return, c17Model.DescribeOperation(o.Input, o.Output)))
			}
			c.Violation("history-not-linearizable/"+tag, "the recorded {AppendSync, Head} history has no sequential explanation: some Head() value is not the top of the contiguous run of any serialisation of the appends", lines)
		case porcupine.Unknown:
			c.Inconclusive("porcupine timed out on %d operations", len(hist))
		}
		overl := 0
		seen := map[int]bool{}
		for _, bs := range p.Writers {
			for _, b := range bs {
				for _, h := range b {
					if seen[h] {
						overl++
					}
					seen[h] = true
				}
			}
		}
		if delTo > uint64(p.Base) {
			tag += "-into-appended"
		}
		if p.AtHead {
			tag += "-at-head"
		}
		if p.Zombie {
			tag += fmt.Sprintf("-zombie-reader-lag%d", p.ZombieLagUs)
		}
		c.Class("writers=%d readers=%d %s wb=%d %s overlap=%v pace=%d sched=%v dsyield=%v slowptr=%d", len(p.Writers), p.Readers, tag, p.Cfg.WB, p.Cfg.Flavour, overl > 0, p.PaceUs, p.Sched != 0, p.DsYield != 0, p.SlowPtrUs)
		_ = strings.Join
	})
}
