//go:build verif

package storeprops

import (
	"context"
	"errors"
	"fmt"
	"sort"
	"strings"
	"testing/synctest"
	"time"

	header "github.com/celestiaorg/go-header"
	"github.com/celestiaorg/go-header/store"
	ds "github.com/ipfs/go-datastore"
	contextds "github.com/ipfs/go-datastore/context"

	"verifharness/memds"
	"verifharness/mon"
	"verifharness/vh"
)

type Store = store.Store[*vh.Header]

// Cfg is a store configuration.
type Cfg struct {
	SC      int    `json:"sc"`                // StoreCacheSize
	IC      int    `json:"ic"`                // IndexCacheSize
	WB      int    `json:"wb"`                // WriteBatchSize
	Flavour string `json:"flavour"`           // plain | ctx
	Metrics bool   `json:"metrics,omitempty"` // store.WithMetrics()
}

func (c Cfg) String() string { return fmt.Sprintf("sc%d-ic%d-wb%d-%s", c.SC, c.IC, c.WB, c.Flavour) }

// wrap returns the datastore handed to NewStore for the flavour.
func wrap(d *memds.DS, flavour string) ds.Batching {
	if flavour == "ctx" {
		return contextds.WrapDatastore(d).(ds.Batching)
	}
	return d
}

func openStore(d *memds.DS, cfg Cfg) (*Store, error) {
	opts := []store.Option{store.WithStoreCacheSize(cfg.SC), store.WithIndexCacheSize(cfg.IC), store.WithWriteBatchSize(cfg.WB)}
	if cfg.Metrics {
		opts = append(opts, store.WithMetrics())
	}
	return store.NewStore[*vh.Header](wrap(d, cfg.Flavour), opts...)
}

// env is one store under test plus its reference model.
type env struct {
	c     *mon.Case
	d     *memds.DS
	cfg   Cfg
	st    *Store
	chain *vh.Chain
	// model: heights appended and not deleted
	P        map[uint64]bool
	anchored bool // a chain exists: something was appended since creation / the last whole-chain delete
	started  bool
	coarse   bool // collapse the sub-clauses of "still there" into one signature
	// strictUnstored: also demand that Get/Has by hash fail for heights outside the model (sequential histories only:
	// under a concurrent deleter a racing by-hash read can legitimately or not put a header back, see DESIGN 6.2)
	strictUnstored bool
	ghostCheck     bool   // (concurrent histories) a header outside the model may be served by hash only if it is in the datastore
	newDuring      uint64 // height appended from inside an OnDelete handler during the judged deletion (0 = none)
}

func newChain(n int) *vh.Chain {
	return vh.NewChain("st", vh.Regular(time.Now().Add(-time.Second), n, time.Second))
}

// vctx returns a context with a virtual-time deadline.
func vctx(d time.Duration) (context.Context, context.CancelFunc) {
	return context.WithTimeout(context.Background(), d)
}

func (e *env) open() error {
	st, err := openStore(e.d, e.cfg)
	if err != nil {
		return err
	}
	e.st = st
	return nil
}

func (e *env) start() error {
	ctx, cancel := vctx(time.Minute)
	defer cancel()
	if err := e.st.Start(ctx); err != nil {
		return err
	}
	e.started = true
	return nil
}

func (e *env) stop() error {
	if !e.started {
		return nil
	}
	e.started = false
	ctx, cancel := vctx(time.Hour)
	defer cancel()
	return e.st.Stop(ctx)
}

func (e *env) sync() error {
	ctx, cancel := vctx(time.Hour)
	defer cancel()
	err := e.st.Sync(ctx)
	synctest.Wait()
	return err
}

func (e *env) appendHs(hs ...uint64) error {
	ctx, cancel := vctx(time.Minute)
	defer cancel()
	batch := make([]*vh.Header, len(hs))
	for i, h := range hs {
		batch[i] = e.chain.At(h)
	}
	err := e.st.Append(ctx, batch...)
	if err == nil {
		for _, h := range hs {
			e.P[h] = true
		}
		e.anchored = true
	}
	return err
}

// nextAbove returns the k heights right above the observed Head (after a Sync); false if the store
// is empty or the chain is exhausted.
func (e *env) nextAbove(k int) ([]uint64, bool) {
	if err := e.sync(); err != nil {
		return nil, false
	}
	head, err := e.st.Head(context.Background())
	if err != nil {
		return nil, false
	}
	var hs []uint64
	for h := head.Height() + 1; h+4 <= e.chain.Len() && len(hs) < k; h++ { // keep room for continuations
		hs = append(hs, h)
	}
	return hs, len(hs) > 0
}

func (e *env) headTail() (head, tail *vh.Header, herr, terr error) {
	ctx := context.Background()
	head, herr = e.st.Head(ctx)
	tail, terr = e.st.Tail(ctx)
	return
}

// getByHeight with a short virtual deadline (a blocked wait for a future height ends in an error).
func (e *env) getByHeight(h uint64) (*vh.Header, error) {
	ctx, cancel := vctx(50 * time.Millisecond)
	defer cancel()
	return e.st.GetByHeight(ctx, h)
}

func sortedKeys(m map[uint64]bool) []uint64 {
	ks := make([]uint64, 0, len(m))
	for k := range m {
		ks = append(ks, k)
	}
	sort.Slice(ks, func(i, j int) bool { return ks[i] < ks[j] })
	return ks
}

// rawKeysFor reports which raw datastore keys exist for canonical header h (hash key, height key).
func (e *env) rawKeysFor(h uint64) (hashKey, heightKey bool) {
	hd := e.chain.At(h)
	return e.d.HasKey("/headers/" + strings.ToUpper(fmt.Sprintf("%x", []byte(hd.Hash())))), e.d.HasKey(fmt.Sprintf("/headers/%d", h))
}

// checkChain evaluates the structural invariants I1-I7 of C04 against the model and reports
// violations with the given signature suffix. Returns false if any was violated.
func (e *env) checkChain(ctxTag string, withRanges bool) bool {
	c := e.c
	ok := true
	viol := func(inv, what string) {
		ok = false
		c.Violation(inv+"/"+ctxTag, what, map[string]any{"model": sortedKeys(e.P)})
	}
	head, tail, herr, terr := e.headTail()
	if !e.anchored {
		// nothing appended since creation / since the whole chain was deleted: the store must be empty
		if !errors.Is(herr, header.ErrEmptyStore) || !errors.Is(terr, header.ErrEmptyStore) {
			viol("I0-not-empty-without-chain", fmt.Sprintf("Head=%v err=%v Tail=%v err=%v although the whole chain was deleted / nothing appended", head, herr, tail, terr))
		}
		e.checkStored(0, 0, viol)
		return ok
	}
	if herr != nil || terr != nil {
		if errors.Is(herr, header.ErrEmptyStore) || errors.Is(terr, header.ErrEmptyStore) {
			viol("I0-empty-but-chain-expected", fmt.Sprintf("Head err=%v Tail err=%v, model has %d heights", herr, terr, len(e.P)))
		} else {
			viol("I0-head-tail-error", fmt.Sprintf("Head err=%v Tail err=%v", herr, terr))
		}
		return ok
	}
	H, T := head.Height(), tail.Height()
	c.Count("chain_checks", 1)
	if T > H {
		viol("I1-tail-above-head", fmt.Sprintf("Tail %d > Head %d", T, H))
		return ok
	}
	for h := T; h <= H; h++ {
		if !e.P[h] {
			viol("I2-run-contains-unstored-height", fmt.Sprintf("height %d in [Tail %d, Head %d] was never appended or was deleted", h, T, H))
			break
		}
	}
	if e.P[H+1] {
		viol("I3-head-not-maximal", fmt.Sprintf("Head %d but %d is stored: head did not advance over a filled gap", H, H+1))
	}
	if T > 1 && e.P[T-1] {
		viol("I3-tail-not-maximal", fmt.Sprintf("Tail %d but %d is stored", T, T-1))
	}
	if hh := e.st.Height(); hh != H {
		viol("I5-height-ne-head", fmt.Sprintf("Height()=%d, Head().Height()=%d", hh, H))
	}
	e.checkStored(T, H, viol)
	bg := context.Background()
	if e.st.HasAt(bg, 0) {
		viol("I6-hasat-zero", "HasAt(0) true")
	}
	if withRanges {
		e.checkRanges(T, H, viol)
	}
	return ok
}

// checkStored checks I4/I6: every model height is readable by height and hash (inside and outside
// the run) and HasAt agrees with [T,H] (T=H=0: empty store).
func (e *env) checkStored(T, H uint64, viol func(inv, what string)) {
	bg := context.Background()
	maxH := e.chain.Len()
	for h := uint64(1); h <= maxH; h++ {
		want := e.chain.At(h)
		inRun := h >= T && h <= H
		if got := e.st.HasAt(bg, h); got != inRun {
			viol("I6-hasat-disagrees", fmt.Sprintf("HasAt(%d)=%v, Tail %d Head %d", h, got, T, H))
		}
		if !e.P[h] && !e.strictUnstored {
			// under a concurrent deleter a stray stored copy below Tail is tolerated (DESIGN 6.2), a header that is
			// served by hash although its key is NOT in the datastore is not: it exists only in a cache
			if e.ghostCheck {
				if gh, err := e.st.Get(bg, want.Hash()); err == nil {
					if hk, _ := e.rawKeysFor(h); !hk {
						viol("I8-get-answers-from-cache-only", fmt.Sprintf("Get(hash of %d) returned %v although its key is not in the datastore (Tail %d Head %d): a deleted header lingers in the cache", h, gh, T, H))
					}
				}
				e.c.Count("ghost_lookups", 1)
			}
			continue
		}
		if !e.P[h] {
			// never appended, or deleted: neither lookup may still answer for it (a header that lingers in a cache
			// under its hash after its deletion makes Get/Has disagree with HasAt/GetByHeight)
			if has, err := e.st.Has(bg, want.Hash()); has {
				viol("I8-has-true-for-unstored", fmt.Sprintf("Has(hash of %d)=true,%v although the header was deleted / never appended (Tail %d Head %d)", h, err, T, H))
			}
			if gh, err := e.st.Get(bg, want.Hash()); err == nil {
				viol("I8-get-answers-for-unstored", fmt.Sprintf("Get(hash of %d) returned %v although the header was deleted / never appended (Tail %d Head %d)", h, gh, T, H))
			}
			e.c.Count("unstored_hash_lookups", 1)
			continue
		}
		g, err := e.getByHeight(h)
		if err != nil {
			viol("I4-stored-height-unreadable", fmt.Sprintf("GetByHeight(%d): %v (inRun=%v)", h, err, inRun))
			continue
		}
		if g.Height() != h || string(g.Hash()) != string(want.Hash()) {
			viol("I2-wrong-header-at-height", fmt.Sprintf("GetByHeight(%d) returned %v", h, g))
		}
		gh, err := e.st.Get(bg, want.Hash())
		if err != nil {
			viol("I4-stored-hash-unreadable", fmt.Sprintf("Get(hash of %d): %v", h, err))
		} else if gh.Height() != h || string(gh.Hash()) != string(want.Hash()) {
			viol("I2-wrong-header-at-hash", fmt.Sprintf("Get(hash of %d) returned %v", h, gh))
		}
		has, err := e.st.Has(bg, want.Hash())
		if err != nil || !has {
			viol("I4-has-false-for-stored", fmt.Sprintf("Has(hash of %d)=%v,%v", h, has, err))
		}
	}
}

func (e *env) checkRanges(T, H uint64, viol func(inv, what string)) {
	try := func(from, to uint64) {
		ctx, cancel := vctx(50 * time.Millisecond)
		got, err := e.st.GetRange(ctx, from, to)
		cancel()
		e.c.Count("range_reads", 1)
		inside := from >= T && to <= H+1 && from < to
		if err != nil {
			if inside {
				viol("I7-range-inside-run-fails", fmt.Sprintf("GetRange(%d,%d) with Tail %d Head %d: %v", from, to, T, H, err))
			}
			return
		}
		exact := uint64(len(got)) == to-from && from < to
		if exact {
			for i, g := range got {
				if g == nil || g.Height() != from+uint64(i) || !e.chain.Canonical(g) {
					exact = false
				}
			}
		}
		if !exact {
			viol("I7-range-not-exact", fmt.Sprintf("GetRange(%d,%d) returned %d headers %v with nil error", from, to, len(got), got))
		}
		// GetRangeByHeight(from-1 header, to) must agree
		if from >= 2 {
			ctx, cancel := vctx(50 * time.Millisecond)
			got2, err2 := e.st.GetRangeByHeight(ctx, e.chain.At(from-1), to)
			cancel()
			if err2 != nil || len(got2) != len(got) {
				viol("I7-rangebyheight-disagrees", fmt.Sprintf("GetRangeByHeight(%d,%d): %d headers, err %v; GetRange gave %d", from-1, to, len(got2), err2, len(got)))
			}
		}
	}
	rng := e.c.Rand("ranges", T, H)
	try(T, H+1)
	try(T, T+1)
	try(H, H+1)
	for i := 0; i < 4; i++ {
		a := T + uint64(rng.Intn(int(H-T+1)))
		b := a + 1 + uint64(rng.Intn(int(H-a+1)))
		try(a, b)
	}
	// outside: must be exact or error, never something else
	if T > 1 {
		try(T-1, T+1)
	}
	try(H, H+2)
	try(H+1, H+3)
	try(T, T) // invalid
}
