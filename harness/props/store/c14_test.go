//go:build verif

package storeprops

import (
	"context"
	"errors"
	"fmt"
	"strings"
	"sync"
	"testing"
	"testing/synctest"
	"time"

	"verifharness/mon"
)

// ---- C14: OnDelete handlers run once per removed header, before it becomes unreadable ----

type c14P struct {
	Mix      mix    `json:"mix"`
	Side     string `json:"side"`     // prefix | suffix | whole
	Handlers int    `json:"handlers"` // 1..3
	Fail     string `json:"fail"`     // none | error | panic | panic-int | panic-struct | panic-err | error-from | panic-from
	FailH    int    `json:"fail_h"`   // offset of the failing height inside the range
	FailJ    int    `json:"fail_j"`   // index of the failing handler
	// Pre: what happened to the Store between registering the handlers and the judged deletion:
	// "" nothing | restart (Stop+Start of the same object) | wipe (whole-chain DeleteRange, then the same heights appended again)
	Pre string `json:"pre,omitempty"`
}

type c14PanicValue struct{ H uint64 }

var errHandler = errors.New("c14: injected handler error")

type hcall struct {
	J        int
	H        uint64
	Readable bool
	Ret      string // nil | error | panic
	Call     int    // which DeleteRange call (0 = first, 1 = retry)
}

func TestC14(t *testing.T) {
	r := mon.Open(t, "C14")
	mon.Register(r, "handlers", c14Run)
	// lowered-threshold parallel-path mixes first, then the C08 mixes
	mixes := append([]mix{
		{Cfg: Cfg{SC: 64, IC: 64, WB: 8, Flavour: "plain"}, T0: 1, Batches: []int{12, 3}, Par: 4},
		{Cfg: Cfg{SC: 64, IC: 64, WB: 8, Flavour: "ctx"}, T0: 2, Batches: []int{12, 3}, Par: 4}}, storeMixes(r)...)
	rng := r.Rand("c14")
	budget := r.N(1500, 12000)
	n := 0
	for mi, m := range mixes {
		for _, side := range []string{"prefix", "suffix", "whole"} {
			span := m.n() - 2
			if side == "whole" {
				span = m.n()
			}
			for nh := 1; nh <= 3; nh++ {
				if mi >= 12 && rng.Intn(3) != 0 {
					continue
				}
				mon.Emit(r, "handlers", c14P{Mix: m, Side: side, Handlers: nh, Fail: "none"}, "handlers")
				for fh := 0; fh < span; fh++ {
					for fj := 0; fj < nh; fj++ {
						for _, kind := range []string{"error", "panic", "error-from"} {
							if kind == "error-from" && (m.Par == 0 || fj != 0) && fh%3 != 1 {
								continue // persistent failures mostly matter on the parallel path
							}
							if n >= budget {
								continue
							}
							if mi >= 6 && nh == 2 && fj == 0 && kind == "panic" && r.Quick() {
								continue // thin out in quick
							}
							mon.Emit(r, "handlers", c14P{Mix: m, Side: side, Handlers: nh, Fail: kind, FailH: fh, FailJ: fj}, "handlers")
							n++
						}
						if (fh+fj)%3 == 0 && n < budget {
							// panics whose value is neither a string nor (always) an error
							kind := []string{"panic-int", "panic-struct", "panic-err"}[(fh/3+fj+nh)%3]
							mon.Emit(r, "handlers", c14P{Mix: m, Side: side, Handlers: nh, Fail: kind, FailH: fh, FailJ: fj}, "handlers")
							n++
						}
					}
				}
			}
		}
	}
	// handlers registered once must keep being called after the store was restarted or wiped and refilled
	for mi, m := range mixes {
		if mi >= 14 {
			break
		}
		for _, pre := range []string{"restart", "wipe"} {
			for _, side := range []string{"prefix", "whole"} {
				mon.Emit(r, "handlers", c14P{Mix: m, Side: side, Handlers: 2, Fail: "none", Pre: pre}, "handlers")
				mon.Emit(r, "handlers", c14P{Mix: m, Side: side, Handlers: 2, Fail: "error", FailH: 1, FailJ: 1, Pre: pre}, "handlers")
			}
		}
	}
	// bulk deletions on the parallel path in which every worker ends up failing: the call must still return
	for _, fl := range []string{"plain", "ctx"} {
		bulk := mix{Cfg: Cfg{SC: 64, IC: 64, WB: 64, Flavour: fl}, T0: 1, Batches: []int{r.N(400, 1500)}, Par: 10}
		for _, kind := range []string{"error-from", "panic-from"} {
			for _, fh := range []int{0, 1, 200} {
				mon.Emit(r, "handlers", c14P{Mix: bulk, Side: "prefix", Handlers: 1, Fail: kind, FailH: fh, FailJ: 0}, "handlers")
			}
		}
	}
	r.Finish()
}

func c14Run(c *mon.Case, p c14P) {
	c.Bubble(func() {
		defer setPar(p.Mix.Par)()
		e := newEnv(c, p.Mix, 4)
		if !e.populate(p.Mix) {
			return
		}
		defer e.teardown()
		var from, to, failAt uint64
		var mu sync.Mutex
		var log []hcall
		callNo := -1 // -1: pre-phase (not judged)
		armed := false
		isPanic := strings.HasPrefix(p.Fail, "panic")
		persistent := strings.HasSuffix(p.Fail, "-from")
		for j := 0; j < p.Handlers; j++ {
			j := j
			e.st.OnDelete(func(ctx context.Context, h uint64) error {
				rctx, cancel := context.WithTimeout(ctx, 20*time.Millisecond)
				g, err := e.st.GetByHeight(rctx, h)
				cancel()
				rec := hcall{J: j, H: h, Readable: err == nil && g != nil && g.Height() == h, Ret: "nil"}
				mu.Lock()
				rec.Call = callNo
				fail := armed && j == p.FailJ && (h == failAt || (persistent && h >= failAt))
				if fail {
					rec.Ret = p.Fail
				}
				log = append(log, rec)
				mu.Unlock()
				if fail {
					switch p.Fail {
					case "panic", "panic-from":
						panic("c14: injected handler panic")
					case "panic-int":
						panic(h)
					case "panic-struct":
						panic(c14PanicValue{H: h})
					case "panic-err":
						panic(fmt.Errorf("c14 panic value: %w", errHandler))
					}
					return fmt.Errorf("wrapped: %w", errHandler)
				}
				return nil
			})
		}
		switch p.Pre {
		case "restart":
			if err := e.stop(); err != nil {
				c.Violation("stop-fails", fmt.Sprint(err), nil)
				return
			}
			if err := e.start(); err != nil {
				c.Violation("restart-fails", fmt.Sprint(err), nil)
				return
			}
		case "wipe":
			s0 := e.snapshot()
			wctx, wcancel := vctx(time.Hour)
			werr := e.st.DeleteRange(wctx, s0.tH, s0.hH+1)
			wcancel()
			if werr != nil {
				c.Violation("pre-wipe-fails", fmt.Sprint(werr), nil)
				return
			}
			h := uint64(p.Mix.T0)
			for _, b := range p.Mix.Batches {
				var hs []uint64
				for i := 0; i < b; i++ {
					hs = append(hs, h)
					h++
				}
				if err := e.appendHs(hs...); err != nil {
					c.Violation("append-fails", fmt.Sprint(err), nil)
					return
				}
				_ = e.sync()
			}
		}
		before := e.snapshot()
		if before.empty {
			c.Violation("populate/empty-store", "store empty before the judged deletion (pre="+p.Pre+")", nil)
			return
		}
		T, H := before.tH, before.hH
		switch p.Side {
		case "prefix":
			from, to = T, H-1
		case "suffix":
			from, to = T+2, H+1
		case "whole":
			from, to = T, H+1
		}
		if from >= to {
			c.Trivial()
			c.Class("degenerate")
			return
		}
		mu.Lock()
		failAt = from + uint64(p.FailH)
		if failAt >= to {
			failAt = to - 1
		}
		callNo = 0
		armed = p.Fail != "none"
		log = nil
		mu.Unlock()
		parallel := p.Mix.Par > 0 && int(to-from) >= p.Mix.Par
		flushedTag := "flushed"
		for h := from; h < to; h++ {
			if before.unflushedAny[h] {
				flushedTag = "touches-unflushed"
			}
		}
		shape := fmt.Sprintf("%s/%s", p.Side, map[bool]string{true: "parallel", false: "sequential"}[parallel])
		c.Class("%s flavour=%s wb=%d restart=%v pre=%s n=%d %s handlers=%d fail=%s@j%d", shape, p.Mix.Cfg.Flavour, p.Mix.Cfg.WB, p.Mix.Restart, p.Pre, min(p.Mix.n(), 100), flushedTag, p.Handlers, p.Fail, p.FailJ)

		// the call runs beside a (virtual) watchdog: with handlers that return at once it has to come back
		ctx, cancel := vctx(time.Hour)
		var err error
		done := make(chan struct{})
		go func() {
			defer close(done)
			err = e.st.DeleteRange(ctx, from, to)
		}()
		select {
		case <-done:
		case <-time.After(3 * time.Hour):
			c.Violation("delete-range-does-not-return/"+shape+"/fail="+p.Fail, fmt.Sprintf("DeleteRange(%d,%d) has not returned 3 virtual hours after the call (context deadline 1 h), all handlers return immediately", from, to), nil)
			cancel()
			return
		}
		cancel()
		synctest.Wait()
		c.Count("delete_calls", 1)
		after := e.snapshot()
		mu.Lock()
		c.Count("handler_invocations", len(log))
		mu.Unlock()

		// check evaluates everything observed up to and including call `upto` (0 = first call, 1 = retry).
		// snaps[c] is the snapshot taken after call c. A header may only become unreadable in call c if
		// some call <= c contains a complete successful round of handlers for it: every handler invoked
		// exactly once, all returning nil, each seeing the header readable.
		check := func(upto int, snaps []snap) map[uint64]bool {
			D := map[uint64]bool{}
			mu.Lock()
			defer mu.Unlock()
			type key struct {
				call, j int
				h       uint64
			}
			cnt := map[key]int{}
			failedIn := map[[2]uint64]bool{} // (call, h)
			for _, r := range log {
				if r.Call > upto || r.Call < 0 {
					continue
				}
				cnt[key{r.Call, r.J, r.H}]++
				if !r.Readable {
					c.Violation("handler-saw-unreadable-header/"+shape+"/"+flushedTag, fmt.Sprintf("handler %d called for height %d but GetByHeight(%d) failed inside the handler (call %d)", r.J, r.H, r.H, r.Call), nil)
				}
				if r.Ret != "nil" {
					failedIn[[2]uint64{uint64(r.Call), r.H}] = true
				}
				if r.H < from || r.H >= to {
					c.Violation("handler-called-outside-range/"+shape, fmt.Sprintf("handler %d called for height %d outside [%d,%d)", r.J, r.H, from, to), nil)
				}
			}
			for k, n := range cnt {
				if n > 1 {
					c.Violation("handler-called-twice/"+shape, fmt.Sprintf("handler %d called %d times for height %d in DeleteRange call %d", k.j, n, k.h, k.call), nil)
				}
			}
			goodRound := func(call int, h uint64) bool {
				if failedIn[[2]uint64{uint64(call), h}] {
					return false
				}
				for j := 0; j < p.Handlers; j++ {
					if cnt[key{call, j, h}] != 1 {
						return false
					}
				}
				return true
			}
			for h := uint64(1); h <= e.chain.Len(); h++ {
				if !before.byHeight[h] {
					continue
				}
				gone := -1
				for ci := 0; ci <= upto; ci++ {
					if !snaps[ci].byHeight[h] {
						gone = ci
						break
					}
				}
				if gone < 0 {
					continue
				}
				if gone == upto {
					D[h] = true
				}
				if h < from || h >= to {
					c.Violation("removed-outside-range/"+shape, fmt.Sprintf("height %d outside [%d,%d) became unreadable", h, from, to), nil)
					continue
				}
				ok := false
				anyFail := false
				for ci := 0; ci <= gone; ci++ {
					ok = ok || goodRound(ci, h)
					anyFail = anyFail || failedIn[[2]uint64{uint64(ci), h}]
				}
				if !ok {
					if anyFail {
						c.Violation("removed-despite-handler-failure/"+shape+"/fail="+p.Fail, fmt.Sprintf("height %d became unreadable in call %d although a handler failed for it and no complete successful round of handlers ran", h, gone), nil)
					} else {
						c.Violation("removed-without-handler/"+shape+"/"+flushedTag, fmt.Sprintf("height %d became unreadable in call %d but not every handler was called exactly once for it", h, gone), nil)
					}
				}
			}
			return D
		}
		D := check(0, []snap{after})
		if p.Fail == "none" {
			if err != nil {
				c.Violation("delete-fails-without-fault/"+shape, fmt.Sprint(err), nil)
				return
			}
			for h := from; h < to; h++ {
				if !D[h] && before.byHeight[h] {
					c.Violation("nil-but-not-removed/"+shape+"/"+flushedTag, fmt.Sprintf("DeleteRange returned nil but height %d is still readable", h), nil)
				}
			}
			return
		}
		// a handler failed at failAt
		if err == nil {
			c.Violation("handler-failure-not-reported/"+shape+"/fail="+p.Fail, fmt.Sprintf("handler %d failed (%s) at height %d but DeleteRange returned nil", p.FailJ, p.Fail, failAt), nil)
		} else if (p.Fail == "error" || p.Fail == "error-from" || p.Fail == "panic-err") && !errors.Is(err, errHandler) && !isPanic {
			c.Violation("handler-error-not-wrapped/"+shape, fmt.Sprintf("DeleteRange error does not wrap the handler's error: %v", err), nil)
		} else if isPanic && !strings.Contains(err.Error(), "panic") {
			c.Violation("handler-panic-not-reported/"+shape, fmt.Sprintf("DeleteRange error does not mention the handler panic: %.200s", err.Error()), nil)
		}
		if D[failAt] || !after.byHeight[failAt] {
			c.Violation("failed-height-removed/"+shape+"/fail="+p.Fail, fmt.Sprintf("height %d whose handler failed is no longer readable", failAt), nil)
		}
		if c.Violated() || p.Side == "suffix" {
			return
		}
		// retry of the tail-side deletion: handlers must run for failAt again and then complete
		mu.Lock()
		armed = false
		callNo = 1
		mu.Unlock()
		_, tail, _, terr := e.headTail()
		if terr != nil {
			c.Violation("tail-lost-after-handler-failure/"+shape, fmt.Sprint(terr), nil)
			return
		}
		ctx2, cancel2 := vctx(time.Hour)
		err2 := e.st.DeleteRange(ctx2, tail.Height(), to)
		cancel2()
		synctest.Wait()
		if err2 != nil {
			c.Violation("retry-fails/"+shape, fmt.Sprintf("retry DeleteRange(%d,%d): %v", tail.Height(), to, err2), nil)
			return
		}
		after2 := e.snapshot()
		D2 := check(1, []snap{after, after2})
		if after2.byHeight[failAt] {
			_ = D2
			c.Violation("retry-did-not-remove-failed-height/"+shape, fmt.Sprintf("height %d still readable after the retry returned nil", failAt), nil)
		}
		for h := from; h < to; h++ {
			if after2.byHeight[h] {
				c.Violation("retry-left-header/"+shape, fmt.Sprintf("height %d still readable after the retry returned nil", h), nil)
			}
		}
	})
}
