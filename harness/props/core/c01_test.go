//go:build verif

package core

import (
	"errors"
	"fmt"
	"testing"
	"time"

	header "github.com/celestiaorg/go-header"

	"verifharness/mon"
	"verifharness/vh"
)

// ---- C01: Verify accepts only headers passing every mandatory and type-level check ----

type c01P struct {
	Zero   string `json:"zero"`   // none | trusted | untrusted | both
	Chain  string `json:"chain"`  // same | diff
	Height string `json:"height"` // lt | eq | adj | plus2 | far
	TTime  string `json:"ttime"`  // untrusted time vs trusted: lt | eq | gt
	Now    string `json:"now"`    // past | driftm1 | drift | driftp1 | hour
	Shape  string `json:"shape"`  // type-level result: nil | plain | ve-hard | ve-soft | wve-hard | wve-soft
	Reps   int    `json:"reps"`
	Base   string `json:"base,omitempty"` // "" heights around 10^6 | max: heights at the top of uint64
}

var errCause = errors.New("c01: type-level cause")

func c01Shape(shape string) error {
	switch shape {
	case "nil":
		return nil
	case "plain":
		return fmt.Errorf("plain: %w", errCause)
	case "ve-hard":
		return &header.VerifyError{Reason: errCause}
	case "ve-soft":
		return &header.VerifyError{Reason: errCause, SoftFailure: true}
	case "wve-hard":
		return fmt.Errorf("outer: %w", &header.VerifyError{Reason: errCause})
	case "wve-soft":
		return fmt.Errorf("outer: %w", &header.VerifyError{Reason: errCause, SoftFailure: true})
	}
	panic("shape")
}

func TestC01(t *testing.T) {
	r := mon.Open(t, "C01")
	mon.Register(r, "grid", c01Run)
	reps := r.N(1, 200)
	shapes := []string{"nil", "plain", "ve-hard", "ve-soft", "wve-hard", "wve-soft"}
	for _, z := range []string{"trusted", "untrusted", "both"} {
		for _, sh := range shapes {
			mon.Emit(r, "grid", c01P{Zero: z, Chain: "same", Height: "adj", TTime: "gt", Now: "past", Shape: sh, Reps: reps}, "zero")
		}
	}
	for _, ch := range []string{"same", "diff", "case"} {
		for _, hr := range []string{"lt", "eq", "adj", "plus2", "far"} {
			for _, tt := range []string{"lt", "eq", "gt"} {
				for _, nw := range []string{"past", "driftm1", "drift", "driftp1", "hour"} {
					for _, sh := range shapes {
						mon.Emit(r, "grid", c01P{Zero: "none", Chain: ch, Height: hr, TTime: tt, Now: nw, Shape: sh, Reps: reps}, "grid")
					}
				}
			}
		}
	}
	// the same relations with heights at the very top of uint64 (arithmetic on heights must not wrap)
	for _, hr := range []string{"lt", "eq", "adj", "plus2", "far"} {
		for _, tt := range []string{"lt", "gt"} {
			for _, sh := range shapes {
				mon.Emit(r, "grid", c01P{Zero: "none", Chain: "same", Height: hr, TTime: tt, Now: "past", Shape: sh, Reps: reps, Base: "max"}, "grid")
			}
		}
	}
	r.Finish()
}

func c01Run(c *mon.Case, p c01P) {
	c.Bubble(func() {
		rng := c.Rand()
		drift := header.VerifClockDrift()
		outcomes := map[string]bool{}
		for rep := 0; rep < p.Reps; rep++ {
			now := time.Now()
			// untrusted time by relation to now
			var ut time.Time
			switch p.Now {
			case "past":
				ut = now.Add(-time.Duration(rng.Int63n(int64(time.Hour))))
			case "driftm1":
				ut = now.Add(drift - 1)
			case "drift":
				ut = now.Add(drift)
			case "driftp1":
				ut = now.Add(drift + 1)
			case "hour":
				ut = now.Add(time.Hour + time.Duration(rng.Int63n(int64(time.Hour))))
			}
			var tt time.Time
			switch p.TTime {
			case "lt": // untrusted < trusted
				tt = ut.Add(1 + time.Duration(rng.Int63n(int64(time.Minute))))
				if rep == 0 {
					tt = ut.Add(1)
				}
			case "eq":
				tt = ut
			case "gt":
				tt = ut.Add(-1 - time.Duration(rng.Int63n(int64(time.Minute))))
				if rep == 0 {
					tt = ut.Add(-1)
				}
			}
			th := uint64(2 + rng.Int63n(1_000_000))
			if p.Base == "max" {
				th = ^uint64(0) - map[string]uint64{"lt": 0, "eq": 0, "adj": 1, "plus2": 2, "far": 1_001_000}[p.Height]
				if p.Height == "far" {
					th -= uint64(rng.Int63n(1000))
				}
			}
			var uh uint64
			switch p.Height {
			case "lt":
				if p.Base == "max" {
					uh = th - 1 - uint64(rng.Int63n(1000))
					if rep == 1 {
						uh = 3 // far below
					}
				} else {
					uh = 1 + uint64(rng.Int63n(int64(th-1)))
				}
			case "eq":
				uh = th
			case "adj":
				uh = th + 1
			case "plus2":
				uh = th + 2
			case "far":
				uh = th + 1000 + uint64(rng.Int63n(1_000_000))
			}
			uchain := "c01"
			if p.Chain == "diff" {
				uchain = "c01x"
			} else if p.Chain == "case" {
				uchain = "C01" // differs in letter case only: still another chain
			}
			called := 0
			shapeErr := c01Shape(p.Shape)
			trusted := (&vh.Header{Chain: "c01", H: th, T: tt.UnixNano(), Nonce: 1, Signed: true}).Seal()
			trusted.VerifyScript = func(*vh.Header) error { called++; return shapeErr }
			untrusted := (&vh.Header{Chain: uchain, H: uh, T: ut.UnixNano(), Nonce: 2, Signed: true}).Seal()
			switch p.Zero {
			case "trusted":
				trusted = nil
			case "untrusted":
				untrusted = nil
			case "both":
				trusted, untrusted = nil, nil
			}

			res := header.Verify(trusted, untrusted)
			c.Count("verify_calls", 1)

			// ---- reference ----
			type cond struct {
				name     string
				holds    bool
				sentinel error
			}
			var conds []cond
			if p.Zero != "none" {
				conds = []cond{{"Z", true, header.ErrZeroHeader}}
			} else {
				conds = []cond{
					{"Z", false, header.ErrZeroHeader},
					{"C", uchain != "c01", header.ErrWrongChainID},
					{"K", uh <= th, header.ErrKnownHeader},
					{"U", ut.Before(tt), header.ErrUnorderedTime},
					{"F", ut.After(now.Add(drift)), header.ErrFromFuture},
				}
			}
			failing := ""
			for _, cd := range conds {
				if cd.holds {
					failing += cd.name
				}
			}
			shapeTag := fmt.Sprintf("zero=%s/shape=%s/adj=%v", p.Zero, p.Shape, p.Height == "adj")
			if failing != "" {
				outcomes["mandatory:"+failing] = true
				ve, ok := res.(*header.VerifyError)
				if !ok {
					c.Violation("mandatory/not-VerifyError/failing="+failing, fmt.Sprintf("mandatory check(s) %s fail but Verify returned %T %v", failing, res, res), nil)
					continue
				}
				if ve.SoftFailure {
					c.Violation("mandatory/soft/failing="+failing, "failed mandatory check reported as SoftFailure", fmt.Sprint(res))
				}
				matched := false
				for _, cd := range conds {
					is := errors.Is(res, cd.sentinel)
					if is && !cd.holds {
						c.Violation("mandatory/wrong-sentinel/failing="+failing+"/got="+cd.name, fmt.Sprintf("error wraps sentinel of non-failing condition %s: %v", cd.name, res), nil)
					}
					if is && cd.holds {
						matched = true
					}
				}
				if !matched {
					c.Violation("mandatory/no-matching-sentinel/failing="+failing, fmt.Sprintf("error wraps no sentinel of a failing condition: %v", res), nil)
				}
				if errors.Is(res, errCause) {
					c.Violation("mandatory/type-level-decided/failing="+failing, "type-level error returned although a mandatory check fails", fmt.Sprint(res))
				}
				continue
			}
			// all mandatory checks pass
			if p.Shape == "nil" {
				outcomes["accept"] = true
				if res != nil {
					c.Violation("accept/rejected/"+shapeTag, fmt.Sprintf("all checks pass but Verify returned %v", res), nil)
				}
				if called == 0 {
					c.Violation("accept/type-level-not-consulted", "Verify returned nil without calling the type's Verify", nil)
				}
				continue
			}
			adjacent := uh == th+1
			wantSoft := !adjacent || p.Shape == "ve-soft" || p.Shape == "wve-soft"
			outcomes[fmt.Sprintf("type-reject:soft=%v", wantSoft)] = true
			if res == nil {
				c.Violation("type/accepted/"+shapeTag, "type-level Verify rejected but Verify returned nil", nil)
				continue
			}
			ve, ok := res.(*header.VerifyError)
			if !ok {
				c.Violation("type/not-VerifyError/"+shapeTag, fmt.Sprintf("rejection is %T, not *VerifyError", res), nil)
				continue
			}
			if !errors.Is(res, errCause) {
				c.Violation("type/cause-lost/"+shapeTag, fmt.Sprintf("rejection does not wrap the type's own error: %v", res), nil)
			}
			if ve.SoftFailure != wantSoft {
				c.Violation(fmt.Sprintf("type/soft-mismatch/want=%v/%s", wantSoft, shapeTag), fmt.Sprintf("SoftFailure=%v, expected %v (adjacent=%v shape=%s)", ve.SoftFailure, wantSoft, adjacent, p.Shape), nil)
			}
			for _, cd := range conds {
				if errors.Is(res, cd.sentinel) {
					c.Violation("type/mandatory-sentinel/"+cd.name, "type-level rejection wraps a mandatory sentinel", fmt.Sprint(res))
				}
			}
		}
		oc := ""
		for k := range outcomes {
			if oc == "" || k < oc {
				oc = k
			}
		}
		c.Class("%s|%s|%s%s|%s|%s|%s => %s", p.Zero, p.Chain, p.Height, p.Base, p.TTime, p.Now, p.Shape, oc)
	})
}
