//go:build verif

package core

import (
	"errors"
	"fmt"
	"strings"
	"testing"
	"time"

	header "github.com/celestiaorg/go-header"

	"verifharness/mon"
	"verifharness/vh"
)

// ---- C02: VerifyRange returns exactly the verified, height-adjacent prefix of its input ----

type c02Defect struct {
	Kind string `json:"kind"`
	Pos  int    `json:"pos"`
}

type c02P struct {
	Len     int         `json:"len"`
	Trusted string      `json:"trusted"` // adjacent | far | zero | above (trusted at/above first element)
	Trust   uint64      `json:"trust"`   // trust range (0 unlimited)
	Defects []c02Defect `json:"defects"`
}

var c02Kinds = []string{"forged", "relinked", "wrongchain", "beforetrusted", "future", "gap", "dup", "swap", "zero", "invalidfields-ok", "type-soft", "type-hard-wrapped"}

func TestC02(t *testing.T) {
	r := mon.Open(t, "C02")
	mon.Register(r, "seq", c02Run)
	maxLen := r.N(7, 12)
	trusteds := []string{"adjacent", "far", "zero", "above"}
	// no-defect and all single-defect placements, exhaustively
	for _, tr := range trusteds {
		for _, trust := range []uint64{0, 3} {
			for ln := 0; ln <= maxLen; ln++ {
				mon.Emit(r, "seq", c02P{Len: ln, Trusted: tr, Trust: trust}, "seq")
				for _, k := range c02Kinds {
					for pos := 0; pos < ln; pos++ {
						mon.Emit(r, "seq", c02P{Len: ln, Trusted: tr, Trust: trust, Defects: []c02Defect{{k, pos}}}, "seq")
					}
				}
			}
		}
	}
	// long ranges (one protocol page is 64 headers): none, or one defect around / beyond position 64
	for _, ln := range []int{63, 64, 65, 66, 130} {
		for _, tr := range []string{"adjacent", "far"} {
			mon.Emit(r, "seq", c02P{Len: ln, Trusted: tr}, "seq")
			for _, k := range []string{"forged", "gap", "future", "dup", "type-soft", "zero"} {
				for _, pos := range []int{0, 62, 63, 64, 65, ln - 1} {
					if pos < ln {
						mon.Emit(r, "seq", c02P{Len: ln, Trusted: tr, Defects: []c02Defect{{k, pos}}}, "seq")
					}
				}
			}
		}
	}
	// double defects by PRNG
	rng := r.Rand("double")
	for i := 0; i < r.N(600, 60000); i++ {
		ln := 2 + rng.Intn(maxLen-1)
		p := c02P{Len: ln, Trusted: trusteds[rng.Intn(len(trusteds))], Trust: []uint64{0, 3}[rng.Intn(2)]}
		p.Defects = []c02Defect{{c02Kinds[rng.Intn(len(c02Kinds))], rng.Intn(ln)}, {c02Kinds[rng.Intn(len(c02Kinds))], rng.Intn(ln)}}
		mon.Emit(r, "seq", p, "seq")
	}
	r.Finish()
}

var errC02Script = errors.New("c02: scripted type-level rejection")

func trusted0(kind string, chain *vh.Chain, first uint64) *vh.Header {
	switch kind {
	case "adjacent":
		return chain.At(first - 1)
	case "far":
		return chain.At(first - 20)
	case "above":
		return chain.At(first + 1)
	}
	return nil
}

func c02Run(c *mon.Case, p c02P) {
	c.Bubble(func() {
		vh.SetTrustRange(p.Trust)
		defer vh.SetTrustRange(0)
		now := time.Now()
		const base = 50
		chain := vh.NewChain("c02", vh.Regular(now.Add(-time.Second), base+p.Len+10, time.Second))
		first := uint64(base + 1)
		seq := make([]*vh.Header, p.Len)
		for i := range seq {
			seq[i] = chain.At(first + uint64(i))
		}
		var scriptTrusted func(*vh.Header) error
		var scripted *vh.Header
		for di, d := range p.Defects {
			if d.Pos >= len(seq) {
				continue
			}
			cur := seq[d.Pos]
			switch d.Kind {
			case "forged":
				if cur != nil {
					seq[d.Pos] = chain.Variant(vh.VForgedRightLink, cur.H, uint64(di))
				}
			case "relinked":
				if cur != nil {
					seq[d.Pos] = chain.Variant(vh.VSignedRelink, cur.H, uint64(di))
				}
			case "wrongchain":
				if cur != nil {
					seq[d.Pos] = chain.Variant(vh.VWrongChain, cur.H, uint64(di))
				}
			case "beforetrusted":
				if cur != nil {
					seq[d.Pos] = chain.Variant(vh.VBeforeGenesis, cur.H, uint64(di))
				}
			case "future":
				if cur != nil {
					seq[d.Pos] = chain.Variant(vh.VFarFuture, cur.H, uint64(di))
				}
			case "gap": // every element from pos on is shifted up by one height
				for j := d.Pos; j < len(seq); j++ {
					if seq[j] != nil && chain.At(seq[j].H+1) != nil {
						seq[j] = chain.At(seq[j].H + 1)
					}
				}
			case "dup":
				if d.Pos > 0 {
					seq[d.Pos] = seq[d.Pos-1]
				}
			case "swap":
				if d.Pos > 0 {
					seq[d.Pos], seq[d.Pos-1] = seq[d.Pos-1], seq[d.Pos]
				}
			case "zero":
				seq[d.Pos] = nil
			case "type-soft", "type-hard-wrapped":
				// the type-level Verify of the predecessor (the trusted header for pos 0) rejects this element
				// with its own *VerifyError: soft although the element may be adjacent, or hard but wrapped
				soft := d.Kind == "type-soft"
				script := func(*vh.Header) error {
					ve := &header.VerifyError{Reason: errC02Script, SoftFailure: soft}
					if soft {
						return ve
					}
					return fmt.Errorf("wrapped: %w", ve)
				}
				if d.Pos == 0 {
					scriptTrusted = script
				} else if prev := seq[d.Pos-1]; prev != nil {
					cp := *prev
					cp.VerifyScript = script
					seq[d.Pos-1] = &cp
				}
			case "invalidfields-ok": // Validate is not part of Verify: must not change the outcome by itself
				if cur != nil {
					v := *cur
					v.Invalid = true
					seq[d.Pos] = (&vh.Header{Chain: v.Chain, H: v.H, T: v.T, Prev: v.Prev, Nonce: v.Nonce, Signed: true, Invalid: true}).Seal()
				}
			}
		}
		if scriptTrusted != nil && trusted0(p.Trusted, chain, first) != nil {
			cp := *trusted0(p.Trusted, chain, first)
			cp.VerifyScript = scriptTrusted
			scripted = &cp
		}
		var trusted *vh.Header
		switch p.Trusted {
		case "adjacent":
			trusted = chain.At(first - 1)
		case "far":
			trusted = chain.At(first - 20)
		case "zero":
			trusted = nil
		case "above":
			trusted = chain.At(first + 1)
		}

		if scripted != nil {
			trusted = scripted
		}
		in := append([]*vh.Header(nil), seq...)
		out, err := header.VerifyRange(trusted, in)
		c.Count("verify_range_calls", 1)

		// reference: fold the library's Verify with the adjacency rule
		var want []*vh.Header
		tr := trusted
		stop := "complete"
		for i, u := range seq {
			if verr := header.Verify(tr, u); verr != nil {
				stop = fmt.Sprintf("verify-fails@%d", min(i, 3))
				break
			}
			if i > 0 && u.H != tr.H+1 {
				stop = fmt.Sprintf("non-adjacent@%d", min(i, 3))
				break
			}
			want = append(want, u)
			tr = u
		}
		if len(seq) == 0 {
			stop = "empty"
		}
		kinds := make([]string, 0, len(p.Defects))
		for _, d := range p.Defects {
			kinds = append(kinds, d.Kind)
		}
		shape := fmt.Sprintf("trusted=%s/defects=%s", p.Trusted, strings.Join(kinds, "+"))
		c.Class("len=%d trust=%d %s => %s prefix=%d", p.Len, p.Trust, shape, stop, len(want))

		if len(out) > len(in) {
			c.Violation("result-longer-than-input/"+shape, "returned slice longer than input", nil)
			return
		}
		for i := range out {
			if out[i] != in[i] {
				c.Violation("result-not-a-prefix/"+shape, fmt.Sprintf("out[%d]=%v is not in[%d]=%v", i, out[i], i, in[i]), nil)
				return
			}
		}
		if len(out) != len(want) {
			what := "shorter"
			if len(out) > len(want) {
				what = "longer"
			}
			c.Violation("prefix-"+what+"-than-verified/"+shape, fmt.Sprintf("returned %d headers, verified adjacent prefix has %d (stop: %s)", len(out), len(want), stop), nil)
		}
		whole := len(in) > 0 && len(out) == len(in)
		if (err == nil) != whole {
			c.Violation(fmt.Sprintf("error-iff-partial/err-nil=%v/whole=%v/%s", err == nil, whole, shape), fmt.Sprintf("err=%v with %d of %d returned", err, len(out), len(in)), nil)
		}
		if len(in) == 0 && err == nil {
			c.Violation("empty-input-accepted", "empty input returned nil error", nil)
		}
	})
}
