// Package mon is the case journal of the runtime monitors: it selects the cases of a shard,
// persists the spec of the running case before it starts (so a process-fatal crash leaves its
// input on disk), and appends one JSON record per finished case. The driver (/verif/check)
// aggregates the journals into evidence and decides the exit code.
package mon

import (
	"encoding/json"
	"fmt"
	"hash/fnv"
	"math/rand"
	"os"
	"path/filepath"
	"runtime"
	"runtime/debug"
	"strconv"
	"strings"
	"sync"
	"testing"
	"testing/synctest"
)

// Spec fully determines one case.
type Spec struct {
	Property string          `json:"property"`
	Tier     string          `json:"tier"`
	Seed     int64           `json:"seed"`
	Index    int             `json:"index"`
	Kind     string          `json:"kind"`
	CrashSig string          `json:"crash_sig,omitempty"`
	P        json.RawMessage `json:"p"`
}

// Violation is one refuted clause.
type Violation struct {
	Sig    string `json:"sig"`  // shape signature: never contains seeds or concrete heights
	What   string `json:"what"` // human readable
	Detail any    `json:"detail,omitempty"`
}

// Record is the journal line of a finished case.
type Record struct {
	Index        int            `json:"index"`
	Kind         string         `json:"kind"`
	Class        string         `json:"class,omitempty"`
	Trivial      bool           `json:"trivial,omitempty"`
	HookSig      string         `json:"hooksig,omitempty"`
	Counts       map[string]int `json:"counts,omitempty"`
	Violations   []Violation    `json:"violations,omitempty"`
	Inconclusive []string       `json:"inconclusive,omitempty"`
	Spec         *Spec          `json:"spec,omitempty"`   // kept for samples and violating cases
	Sample       any            `json:"sample,omitempty"` // extra human-readable trace for samples
}

// Run is one child-process run of one property.
type Run struct {
	T        *testing.T
	ID       string
	Tier     string
	Seed     int64
	shard    int
	shards   int
	start    int
	replay   *Spec
	outDir   string
	next     int
	ran      int
	journal  *os.File
	runners  map[string]func(c *Case, raw json.RawMessage)
	maxCases int
}

// Case is the context handed to a case runner.
type Case struct {
	R    *Run
	T    *testing.T
	Spec Spec
	mu   sync.Mutex
	rec  Record
}

func envInt(k string, def int) int {
	if v := os.Getenv(k); v != "" {
		n, err := strconv.Atoi(v)
		if err == nil {
			return n
		}
	}
	return def
}

// Open starts the run of property id. Environment: VERIF_TIER, VERIF_SEED, VERIF_SHARD,
// VERIF_SHARDS, VERIF_START, VERIF_REPLAY, VERIF_OUT (directory for journal and current-case files).
func Open(t *testing.T, id string) *Run {
	r := &Run{T: t, ID: id, Tier: os.Getenv("VERIF_TIER"), runners: map[string]func(*Case, json.RawMessage){}}
	if r.Tier == "" {
		r.Tier = "quick"
	}
	seed := os.Getenv("VERIF_SEED")
	if seed == "" {
		seed = "1"
	}
	s, err := strconv.ParseInt(seed, 10, 64)
	if err != nil {
		h := fnv.New64a()
		h.Write([]byte(seed))
		s = int64(h.Sum64() >> 1)
	}
	r.Seed = s
	r.shard = envInt("VERIF_SHARD", 0)
	r.shards = envInt("VERIF_SHARDS", 1)
	r.start = envInt("VERIF_START", 0)
	r.maxCases = envInt("VERIF_MAXCASES", 0)
	r.outDir = os.Getenv("VERIF_OUT")
	if r.outDir == "" {
		r.outDir = filepath.Join(os.TempDir(), "verif-out")
	}
	if err := os.MkdirAll(r.outDir, 0o755); err != nil {
		t.Fatalf("mon: %v", err)
	}
	if f := os.Getenv("VERIF_REPLAY"); f != "" {
		b, err := os.ReadFile(f)
		if err != nil {
			t.Fatalf("mon: reading replay file: %v", err)
		}
		var sp Spec
		if err := json.Unmarshal(b, &sp); err != nil {
			// a violation record wraps the spec
			t.Fatalf("mon: parsing replay file: %v", err)
		}
		if sp.Property == "" {
			var wrap struct {
				Spec *Spec `json:"spec"`
			}
			_ = json.Unmarshal(b, &wrap)
			if wrap.Spec == nil {
				t.Fatalf("mon: replay file has no spec")
			}
			sp = *wrap.Spec
		}
		if sp.Property != id {
			t.Skipf("replay file is for %s", sp.Property)
		}
		r.replay = &sp
		r.Tier, r.Seed = sp.Tier, sp.Seed
	}
	jf := filepath.Join(r.outDir, fmt.Sprintf("%s.%d.jsonl", id, r.shard))
	r.journal, err = os.OpenFile(jf, os.O_CREATE|os.O_WRONLY|os.O_APPEND, 0o644)
	if err != nil {
		t.Fatalf("mon: %v", err)
	}
	t.Cleanup(func() { r.journal.Close() })
	return r
}

// Quick reports whether this is the quick tier.
func (r *Run) Quick() bool { return r.Tier != "thorough" }

// N picks a bound by tier.
func (r *Run) N(quick, thorough int) int {
	if r.Quick() {
		return quick
	}
	return thorough
}

// Rand returns a PRNG determined by the run seed and the given labels.
func (r *Run) Rand(labels ...any) *rand.Rand {
	h := fnv.New64a()
	fmt.Fprint(h, r.ID, r.Seed)
	for _, l := range labels {
		fmt.Fprint(h, "|", l)
	}
	return rand.New(rand.NewSource(int64(h.Sum64() >> 1)))
}

// Register declares the runner of a case kind.
func Register[P any](r *Run, kind string, fn func(c *Case, p P)) {
	r.runners[kind] = func(c *Case, raw json.RawMessage) {
		var p P
		if err := json.Unmarshal(raw, &p); err != nil {
			c.T.Fatalf("mon: bad params for %s: %v", kind, err)
		}
		fn(c, p)
	}
}

// Emit offers a generated case; it is executed if this shard owns its index.
// crashSig is the shape signature reported if the process dies while the case runs.
func Emit[P any](r *Run, kind string, p P, crashSig string) {
	if r.replay != nil {
		return
	}
	idx := r.next
	r.next++
	if idx < r.start || idx%r.shards != r.shard {
		return
	}
	if r.maxCases > 0 && r.ran >= r.maxCases {
		return
	}
	raw, err := json.Marshal(p)
	if err != nil {
		r.T.Fatalf("mon: marshal params: %v", err)
	}
	r.exec(Spec{Property: r.ID, Tier: r.Tier, Seed: r.Seed, Index: idx, Kind: kind, CrashSig: crashSig, P: raw})
}

// Finish runs the replay case (if any) and checks that something was observed.
func (r *Run) Finish() {
	if r.replay != nil {
		r.exec(*r.replay)
		return
	}
}

func (r *Run) exec(sp Spec) {
	fn, ok := r.runners[sp.Kind]
	if !ok {
		r.T.Fatalf("mon: no runner for kind %q", sp.Kind)
	}
	r.ran++
	cur := filepath.Join(r.outDir, fmt.Sprintf("%s.%d.current.json", r.ID, r.shard))
	b, _ := json.Marshal(sp)
	if err := os.WriteFile(cur, b, 0o644); err != nil {
		r.T.Fatalf("mon: %v", err)
	}
	c := &Case{R: r, T: r.T, Spec: sp}
	c.rec.Index, c.rec.Kind = sp.Index, sp.Kind
	func() {
		defer func() {
			if e := recover(); e != nil {
				// a panic on the case goroutine itself
				st := string(debug.Stack())
				if strings.Contains(fmt.Sprint(e), "deadlock") {
					// synctest: goroutines were left blocked in the bubble; show them
					buf := make([]byte, 1<<20)
					buf = buf[:runtime.Stack(buf, true)]
					var keep []string
					for _, g := range strings.Split(string(buf), "\n\n") {
						if strings.Contains(g, "synctest bubble") {
							keep = append(keep, g)
						}
					}
					st = "LEFTOVER GOROUTINES:\n" + strings.Join(keep, "\n\n")
					if len(st) > 12000 {
						st = st[:12000]
					}
				}
				if strings.Contains(fmt.Sprint(e), "main bubble goroutine has exited") {
					// every oracle of the case had already run; goroutines left blocked at teardown do not decide
					// any property: recorded, not judged
					c.Inconclusive("goroutines left blocked in the bubble after the case: %.3000s", st)
					return
				}
				sig := "panic/harness"
				if strings.Contains(st, "github.com/celestiaorg/go-header") {
					sig = "panic/" + sp.CrashSig
				}
				c.Violation(sig, fmt.Sprintf("panic: %v", e), st)
			}
		}()
		fn(c, sp.P)
	}()
	if len(c.rec.Violations) > 0 || len(c.rec.Inconclusive) > 0 || r.ran <= 5 || r.replay != nil {
		c.rec.Spec = &sp
	}
	line, err := json.Marshal(c.rec)
	if err != nil {
		r.T.Fatalf("mon: marshal record: %v", err)
	}
	if _, err := r.journal.Write(append(line, '\n')); err != nil {
		r.T.Fatalf("mon: %v", err)
	}
	_ = os.Remove(cur)
}

// Class sets the behaviour class used to count distinct cases.
func (c *Case) Class(format string, a ...any) {
	c.mu.Lock()
	c.rec.Class = fmt.Sprintf(format, a...)
	c.mu.Unlock()
}

// Trivial marks the case as trivial (not counted in distinct_nontrivial).
func (c *Case) Trivial() { c.mu.Lock(); c.rec.Trivial = true; c.mu.Unlock() }

// HookSig records the hook-order signature.
func (c *Case) HookSig(s string) { c.mu.Lock(); c.rec.HookSig = s; c.mu.Unlock() }

// Count adds to a named counter.
func (c *Case) Count(key string, n int) {
	c.mu.Lock()
	if c.rec.Counts == nil {
		c.rec.Counts = map[string]int{}
	}
	c.rec.Counts[key] += n
	c.mu.Unlock()
}

// Sample attaches a human-readable trace.
func (c *Case) Sample(v any) { c.mu.Lock(); c.rec.Sample = v; c.mu.Unlock() }

// Violation records a refuted clause. sig must describe the shape only.
func (c *Case) Violation(sig, what string, detail any) {
	c.mu.Lock()
	defer c.mu.Unlock()
	for _, v := range c.rec.Violations {
		if v.Sig == sig {
			return // one per signature per case
		}
	}
	c.rec.Violations = append(c.rec.Violations, Violation{Sig: sig, What: what, Detail: detail})
}

// Violated reports whether the case already has violations.
func (c *Case) Violated() bool { c.mu.Lock(); defer c.mu.Unlock(); return len(c.rec.Violations) > 0 }

// Inconclusive records that part of the case could not be decided.
func (c *Case) Inconclusive(format string, a ...any) {
	c.mu.Lock()
	c.rec.Inconclusive = append(c.rec.Inconclusive, fmt.Sprintf(format, a...))
	c.mu.Unlock()
}

// Rand is a PRNG determined by the case spec and labels.
func (c *Case) Rand(labels ...any) *rand.Rand {
	return c.R.Rand(append([]any{"case", c.Spec.Kind, string(c.Spec.P)}, labels...)...)
}

// Bubble runs fn inside a synctest bubble (virtual time, quiescence detection).
func (c *Case) Bubble(fn func()) {
	synctest.Test(c.T, func(t *testing.T) { fn() })
}
