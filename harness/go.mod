module verifharness

go 1.25.7

require (
	github.com/anishathalye/porcupine v1.3.0
	github.com/celestiaorg/go-header v0.0.0
	github.com/celestiaorg/go-libp2p-messenger v0.2.2
	github.com/ipfs/go-datastore v0.9.0
	github.com/libp2p/go-libp2p v0.48.0
	github.com/libp2p/go-libp2p-pubsub v0.16.0
)

require (
	github.com/benbjohnson/clock v1.3.5 // indirect
	github.com/beorn7/perks v1.0.1 // indirect
	github.com/cespare/xxhash/v2 v2.3.0 // indirect
	github.com/davecgh/go-spew v1.1.1 // indirect
	github.com/decred/dcrd/dcrec/secp256k1/v4 v4.4.0 // indirect
	github.com/go-logr/logr v1.4.3 // indirect
	github.com/go-logr/stdr v1.2.2 // indirect
	github.com/gogo/protobuf v1.3.2 // indirect
	github.com/google/uuid v1.6.0 // indirect
	github.com/hashicorp/golang-lru/v2 v2.0.7 // indirect
	github.com/huin/goupnp v1.3.0 // indirect
	github.com/ipfs/go-cid v0.6.0 // indirect
	github.com/ipfs/go-log/v2 v2.9.0 // indirect
	github.com/jackpal/go-nat-pmp v1.0.2 // indirect
	github.com/klauspost/cpuid/v2 v2.3.0 // indirect
	github.com/koron/go-ssdp v0.0.6 // indirect
	github.com/libp2p/go-buffer-pool v0.1.0 // indirect
	github.com/libp2p/go-libp2p-asn-util v0.4.1 // indirect
	github.com/libp2p/go-msgio v0.3.0 // indirect
	github.com/libp2p/go-netroute v0.4.0 // indirect
	github.com/mattn/go-isatty v0.0.20 // indirect
	github.com/mr-tron/base58 v1.2.0 // indirect
	github.com/multiformats/go-base32 v0.1.0 // indirect
	github.com/multiformats/go-base36 v0.2.0 // indirect
	github.com/multiformats/go-multiaddr v0.16.1 // indirect
	github.com/multiformats/go-multiaddr-fmt v0.1.0 // indirect
	github.com/multiformats/go-multibase v0.2.0 // indirect
	github.com/multiformats/go-multicodec v0.10.0 // indirect
	github.com/multiformats/go-multihash v0.2.3 // indirect
	github.com/multiformats/go-multistream v0.6.1 // indirect
	github.com/multiformats/go-varint v0.1.0 // indirect
	github.com/munnerz/goautoneg v0.0.0-20191010083416-a7dc8b61c822 // indirect
	github.com/pmezard/go-difflib v1.0.0 // indirect
	github.com/prometheus/client_golang v1.22.0 // indirect
	github.com/prometheus/client_model v0.6.2 // indirect
	github.com/prometheus/common v0.64.0 // indirect
	github.com/prometheus/procfs v0.16.1 // indirect
	github.com/spaolacci/murmur3 v1.1.0 // indirect
	github.com/stretchr/testify v1.11.1 // indirect
	go.opentelemetry.io/auto/sdk v1.2.1 // indirect
	go.opentelemetry.io/otel v1.41.0 // indirect
	go.opentelemetry.io/otel/metric v1.41.0 // indirect
	go.opentelemetry.io/otel/trace v1.41.0 // indirect
	go.uber.org/multierr v1.11.0 // indirect
	go.uber.org/zap v1.27.1 // indirect
	golang.org/x/crypto v0.52.0 // indirect
	golang.org/x/exp v0.0.0-20251209150349-8475f28825e9 // indirect
	golang.org/x/net v0.55.0 // indirect
	golang.org/x/sync v0.20.0 // indirect
	golang.org/x/sys v0.45.0 // indirect
	golang.org/x/time v0.12.0 // indirect
	google.golang.org/protobuf v1.36.11 // indirect
	gopkg.in/yaml.v3 v3.0.1 // indirect
	lukechampine.com/blake3 v1.4.1 // indirect
)

replace github.com/celestiaorg/go-header => /repo
