//go:build verif

// Package sched controls the build-tagged yield points (verifhook.At) of go-header: it records
// the order in which they are hit and can delay the calling goroutine by a virtual duration, which
// inside a synctest bubble deterministically orders goroutines by virtual timestamp.
package sched

import (
	"fmt"
	"hash/fnv"
	"sync"
	"time"

	"github.com/celestiaorg/go-header/verifhook"
)

// Ctl is one schedule policy + trace.
type Ctl struct {
	mu     sync.Mutex
	fixed  map[string][]time.Duration // per point: delay of the i-th hit (last value repeats if Repeat)
	repeat map[string]bool
	seed   uint64
	random map[string]bool // points with PRNG delays
	hits   map[string]int
	trace  []string
	onHit  func(point string, n int)
	paused bool
	wake   chan struct{} // closed by Pause: releases goroutines already sleeping at a yield point
}

// Pause disables all delays (hits are still recorded). Needed while several goroutines may contend
// on a sync.Mutex of the code under test: a goroutine sleeping in virtual time while holding the mutex
// would stall the bubble, because waiting for a mutex is not a durable block for synctest.
func (c *Ctl) Pause() {
	c.mu.Lock()
	if !c.paused {
		c.paused = true
		close(c.wake)
	}
	c.mu.Unlock()
}

// Resume re-enables the delays.
func (c *Ctl) Resume() {
	c.mu.Lock()
	if c.paused {
		c.paused = false
		c.wake = make(chan struct{})
	}
	c.mu.Unlock()
}

// New creates a controller. seed drives the random policy.
func New(seed uint64) *Ctl {
	return &Ctl{fixed: map[string][]time.Duration{}, repeat: map[string]bool{}, random: map[string]bool{}, hits: map[string]int{}, seed: seed, wake: make(chan struct{})}
}

// Delay sets the delays of the successive hits of a point (scripted policy).
func (c *Ctl) Delay(point string, ds ...time.Duration) *Ctl {
	c.fixed[point] = ds
	return c
}

// DelayNext delays the hit of point that comes skip hits after the next one (skip 0 = the next hit) by d; all other
// hits of the point are not delayed. May be called while the controller is installed.
func (c *Ctl) DelayNext(point string, skip int, d time.Duration) {
	c.mu.Lock()
	defer c.mu.Unlock()
	n := c.hits[point]
	ds := make([]time.Duration, n+skip+1)
	ds[n+skip] = d
	c.fixed[point] = ds
	delete(c.repeat, point)
}

// DelayAll delays every hit of point by d.
func (c *Ctl) DelayAll(point string, d time.Duration) *Ctl {
	c.fixed[point] = []time.Duration{d}
	c.repeat[point] = true
	return c
}

// Random enables PRNG delays (0, 1us .. 10ms virtual) at the given points.
func (c *Ctl) Random(points ...string) *Ctl {
	for _, p := range points {
		c.random[p] = true
	}
	return c
}

// OnHit registers a callback invoked (outside the lock, before the delay) at every hit.
func (c *Ctl) OnHit(f func(point string, n int)) *Ctl { c.onHit = f; return c }

var randomDelays = []time.Duration{0, 0, time.Microsecond, 10 * time.Microsecond, 100 * time.Microsecond, time.Millisecond, 3 * time.Millisecond, 10 * time.Millisecond}

func (c *Ctl) at(point string) {
	c.mu.Lock()
	n := c.hits[point]
	c.hits[point] = n + 1
	if len(c.trace) < 4096 {
		c.trace = append(c.trace, point)
	}
	var d time.Duration
	if ds, ok := c.fixed[point]; ok {
		if n < len(ds) {
			d = ds[n]
		} else if c.repeat[point] && len(ds) > 0 {
			d = ds[len(ds)-1]
		}
	} else if c.random[point] {
		h := fnv.New64a()
		fmt.Fprint(h, c.seed, point, n)
		d = randomDelays[h.Sum64()%uint64(len(randomDelays))]
	}
	f := c.onHit
	if c.paused {
		d = 0
	}
	wake := c.wake
	c.mu.Unlock()
	if f != nil {
		f(point, n)
	}
	if d > 0 {
		t := time.NewTimer(d)
		select {
		case <-t.C:
		case <-wake:
			t.Stop()
		}
	}
}

// Install activates the controller; the returned func deactivates it.
func (c *Ctl) Install() func() {
	verifhook.Set(c.at)
	return func() { verifhook.Set(nil) }
}

// Hits returns a copy of the hit counters.
func (c *Ctl) Hits() map[string]int {
	c.mu.Lock()
	defer c.mu.Unlock()
	m := make(map[string]int, len(c.hits))
	for k, v := range c.hits {
		m[k] = v
	}
	return m
}

// Signature hashes the order of hits.
func (c *Ctl) Signature() string {
	c.mu.Lock()
	defer c.mu.Unlock()
	h := fnv.New64a()
	for _, p := range c.trace {
		h.Write([]byte(p))
		h.Write([]byte{0})
	}
	return fmt.Sprintf("%d:%016x", len(c.trace), h.Sum64())
}
