// Package memds is an in-memory go-datastore that records every atomic write unit in a commit
// log, can rebuild the image after any prefix of that log, injects write/read faults and
// provides snapshot read transactions.
package memds

import (
	"context"
	"errors"
	"sort"
	"strings"
	"sync"

	ds "github.com/ipfs/go-datastore"
	"github.com/ipfs/go-datastore/query"
)

// Op is one key mutation.
type Op struct {
	Del bool   `json:"del,omitempty"`
	Key string `json:"key"`
	Val []byte `json:"val,omitempty"`
}

// Unit is one atomic write unit: a direct Put/Delete, or one committed batch.
type Unit struct {
	Batch bool `json:"batch,omitempty"`
	Ops   []Op `json:"ops"`
}

type entry struct {
	ver int // version (== number of committed units) from which this value is visible
	val []byte
	del bool
}

// ErrInjected is returned by injected faults.
var ErrInjected = errors.New("memds: injected fault")

// DS implements datastore.Batching and datastore.TxnDatastore.
type DS struct {
	mu   sync.Mutex
	hist map[string][]entry
	log  []Unit

	attempts int // write-unit attempts so far (including failed ones)
	// FailWrite, if set, decides whether write attempt #n (0-based) fails. Called under the lock.
	FailWrite func(attempt int, u Unit) bool
	// FailRead, if set, decides whether a read of key fails.
	FailRead func(key string) bool
	// Yield, if set, is called (outside the lock) at the start of every datastore operation; a
	// harness may sleep in it: datastore I/O is a natural suspension point.
	Yield func(op, key string)
	// HonorCtx makes every operation fail with ctx.Err() when its context is done.
	HonorCtx bool
	// NoTxn disables NewTransaction (returns an error), for a datastore flavour without it.
	reads   int
	readsBy map[string]int
	failed  int
}

var (
	_ ds.Batching     = (*DS)(nil)
	_ ds.TxnDatastore = (*DS)(nil)
)

func New() *DS {
	return &DS{hist: make(map[string][]entry), readsBy: make(map[string]int)}
}

func (d *DS) yield(op, key string) {
	if f := d.Yield; f != nil {
		f(op, key)
	}
}

func (d *DS) ctxErr(ctx context.Context) error {
	if d.HonorCtx && ctx != nil {
		return ctx.Err()
	}
	return nil
}

func (d *DS) cur(key string) ([]byte, bool) {
	es := d.hist[key]
	if len(es) == 0 {
		return nil, false
	}
	e := es[len(es)-1]
	if e.del {
		return nil, false
	}
	return e.val, true
}

func (d *DS) at(key string, ver int) ([]byte, bool) {
	es := d.hist[key]
	for i := len(es) - 1; i >= 0; i-- {
		if es[i].ver <= ver {
			if es[i].del {
				return nil, false
			}
			return es[i].val, true
		}
	}
	return nil, false
}

// apply commits a unit (under lock) unless a fault is injected.
func (d *DS) apply(u Unit) error {
	n := d.attempts
	d.attempts++
	if len(u.Ops) == 0 {
		d.attempts-- // empty commits are not write units
		return nil
	}
	if d.FailWrite != nil && d.FailWrite(n, u) {
		d.failed++
		return ErrInjected
	}
	d.log = append(d.log, u)
	ver := len(d.log)
	for _, op := range u.Ops {
		d.hist[op.Key] = append(d.hist[op.Key], entry{ver: ver, val: op.Val, del: op.Del})
	}
	return nil
}

func (d *DS) Put(ctx context.Context, key ds.Key, value []byte) error {
	d.yield("put", key.String())
	if err := d.ctxErr(ctx); err != nil {
		return err
	}
	defer d.yield("put-return", key.String())
	d.mu.Lock()
	defer d.mu.Unlock()
	return d.apply(Unit{Ops: []Op{{Key: key.String(), Val: append([]byte(nil), value...)}}})
}

func (d *DS) Delete(ctx context.Context, key ds.Key) error {
	d.yield("delete", key.String())
	if err := d.ctxErr(ctx); err != nil {
		return err
	}
	defer d.yield("delete-return", key.String())
	d.mu.Lock()
	defer d.mu.Unlock()
	return d.apply(Unit{Ops: []Op{{Del: true, Key: key.String()}}})
}

func classify(key string) string {
	k := key[strings.LastIndex(key, "/")+1:]
	switch {
	case k == "head" || k == "tail":
		return "ptr"
	case len(k) > 0 && len(k) <= 20 && strings.Trim(k, "0123456789") == "":
		return "index"
	default:
		return "header"
	}
}

func (d *DS) noteRead(key string) error {
	d.reads++
	d.readsBy[classify(key)]++
	if d.FailRead != nil && d.FailRead(key) {
		return ErrInjected
	}
	return nil
}

func (d *DS) Get(ctx context.Context, key ds.Key) ([]byte, error) {
	d.yield("get", key.String())
	if err := d.ctxErr(ctx); err != nil {
		return nil, err
	}
	defer d.yield("get-return", key.String()) // the answer travels back: it may be outdated on arrival
	d.mu.Lock()
	defer d.mu.Unlock()
	if err := d.noteRead(key.String()); err != nil {
		return nil, err
	}
	v, ok := d.cur(key.String())
	if !ok {
		return nil, ds.ErrNotFound
	}
	return append([]byte(nil), v...), nil
}

func (d *DS) Has(ctx context.Context, key ds.Key) (bool, error) {
	d.yield("has", key.String())
	if err := d.ctxErr(ctx); err != nil {
		return false, err
	}
	defer d.yield("has-return", key.String())
	d.mu.Lock()
	defer d.mu.Unlock()
	if err := d.noteRead(key.String()); err != nil {
		return false, err
	}
	_, ok := d.cur(key.String())
	return ok, nil
}

func (d *DS) GetSize(ctx context.Context, key ds.Key) (int, error) {
	v, err := d.Get(ctx, key)
	if err != nil {
		return -1, err
	}
	return len(v), nil
}

func (d *DS) Query(ctx context.Context, q query.Query) (query.Results, error) {
	d.mu.Lock()
	var es []query.Entry
	for k := range d.hist {
		if v, ok := d.cur(k); ok && strings.HasPrefix(k, q.Prefix) {
			es = append(es, query.Entry{Key: k, Value: append([]byte(nil), v...), Size: len(v)})
		}
	}
	d.mu.Unlock()
	sort.Slice(es, func(i, j int) bool { return es[i].Key < es[j].Key })
	return query.NaiveQueryApply(q, query.ResultsWithEntries(query.Query{}, es)), nil
}

func (d *DS) Sync(context.Context, ds.Key) error { return nil }
func (d *DS) Close() error                       { return nil }

type batch struct {
	d   *DS
	ops []Op
}

func (d *DS) Batch(ctx context.Context) (ds.Batch, error) {
	if err := d.ctxErr(ctx); err != nil {
		return nil, err
	}
	return &batch{d: d}, nil
}

func (b *batch) Put(ctx context.Context, key ds.Key, value []byte) error {
	if err := b.d.ctxErr(ctx); err != nil {
		return err
	}
	b.ops = append(b.ops, Op{Key: key.String(), Val: append([]byte(nil), value...)})
	return nil
}

func (b *batch) Delete(ctx context.Context, key ds.Key) error {
	if err := b.d.ctxErr(ctx); err != nil {
		return err
	}
	b.ops = append(b.ops, Op{Del: true, Key: key.String()})
	return nil
}

func (b *batch) Commit(ctx context.Context) error {
	// the yield key of a commit lists the keys the batch deletes ("-<key>") and writes ("+<key>")
	var desc strings.Builder
	for _, op := range b.ops {
		if op.Del {
			desc.WriteString("-")
		} else {
			desc.WriteString("+")
		}
		desc.WriteString(op.Key)
		desc.WriteString(" ")
	}
	b.d.yield("commit", desc.String())
	if err := b.d.ctxErr(ctx); err != nil {
		return err
	}
	defer b.d.yield("commit-return", desc.String())
	b.d.mu.Lock()
	defer b.d.mu.Unlock()
	ops := b.ops
	b.ops = nil
	return b.d.apply(Unit{Batch: true, Ops: ops})
}

type txn struct {
	d   *DS
	ver int
	ro  bool
	ops []Op
}

func (d *DS) NewTransaction(ctx context.Context, readOnly bool) (ds.Txn, error) {
	if err := d.ctxErr(ctx); err != nil {
		return nil, err
	}
	d.mu.Lock()
	defer d.mu.Unlock()
	return &txn{d: d, ver: len(d.log), ro: readOnly}, nil
}

func (t *txn) Get(ctx context.Context, key ds.Key) ([]byte, error) {
	t.d.yield("txnget", key.String())
	if err := t.d.ctxErr(ctx); err != nil {
		return nil, err
	}
	defer t.d.yield("txnget-return", key.String())
	t.d.mu.Lock()
	defer t.d.mu.Unlock()
	if err := t.d.noteRead(key.String()); err != nil {
		return nil, err
	}
	v, ok := t.d.at(key.String(), t.ver)
	if !ok {
		return nil, ds.ErrNotFound
	}
	return append([]byte(nil), v...), nil
}

func (t *txn) Has(ctx context.Context, key ds.Key) (bool, error) {
	_, err := t.Get(ctx, key)
	if errors.Is(err, ds.ErrNotFound) {
		return false, nil
	}
	return err == nil, err
}

func (t *txn) GetSize(ctx context.Context, key ds.Key) (int, error) {
	v, err := t.Get(ctx, key)
	if err != nil {
		return -1, err
	}
	return len(v), nil
}

func (t *txn) Query(ctx context.Context, q query.Query) (query.Results, error) {
	return t.d.Query(ctx, q)
}

func (t *txn) Put(ctx context.Context, key ds.Key, value []byte) error {
	if t.ro {
		return errors.New("memds: read-only transaction")
	}
	t.ops = append(t.ops, Op{Key: key.String(), Val: append([]byte(nil), value...)})
	return nil
}

func (t *txn) Delete(ctx context.Context, key ds.Key) error {
	if t.ro {
		return errors.New("memds: read-only transaction")
	}
	t.ops = append(t.ops, Op{Del: true, Key: key.String()})
	return nil
}

func (t *txn) Commit(ctx context.Context) error {
	if t.ro {
		return nil
	}
	t.d.mu.Lock()
	defer t.d.mu.Unlock()
	ops := t.ops
	t.ops = nil
	return t.d.apply(Unit{Batch: true, Ops: ops})
}

func (t *txn) Discard(context.Context) {}

// ---- inspection ----

// LogLen returns the number of committed write units.
func (d *DS) LogLen() int {
	d.mu.Lock()
	defer d.mu.Unlock()
	return len(d.log)
}

// Log returns a copy of the commit log.
func (d *DS) Log() []Unit {
	d.mu.Lock()
	defer d.mu.Unlock()
	return append([]Unit(nil), d.log...)
}

// Attempts returns write attempts so far (committed + failed).
func (d *DS) Attempts() int {
	d.mu.Lock()
	defer d.mu.Unlock()
	return d.attempts
}

// Failed returns the number of injected write failures that occurred.
func (d *DS) Failed() int {
	d.mu.Lock()
	defer d.mu.Unlock()
	return d.failed
}

// ImageAt returns a fresh datastore holding the state after the first p committed units.
func (d *DS) ImageAt(p int) *DS {
	d.mu.Lock()
	defer d.mu.Unlock()
	n := New()
	var ops []Op
	keys := make([]string, 0, len(d.hist))
	for k := range d.hist {
		keys = append(keys, k)
	}
	sort.Strings(keys)
	for _, k := range keys {
		if v, ok := d.at(k, p); ok {
			ops = append(ops, Op{Key: k, Val: v})
		}
	}
	if len(ops) > 0 {
		n.log = append(n.log, Unit{Batch: true, Ops: ops})
		for _, op := range ops {
			n.hist[op.Key] = []entry{{ver: 1, val: op.Val}}
		}
	}
	return n
}

// Keys returns the live keys (sorted).
func (d *DS) Keys() []string {
	d.mu.Lock()
	defer d.mu.Unlock()
	var ks []string
	for k := range d.hist {
		if _, ok := d.cur(k); ok {
			ks = append(ks, k)
		}
	}
	sort.Strings(ks)
	return ks
}

// HasKey reports whether a raw key is live.
func (d *DS) HasKey(k string) bool {
	d.mu.Lock()
	defer d.mu.Unlock()
	_, ok := d.cur(k)
	return ok
}

// Reads returns total reads and reads per key class (ptr/index/header).
func (d *DS) Reads() (int, map[string]int) {
	d.mu.Lock()
	defer d.mu.Unlock()
	m := make(map[string]int, len(d.readsBy))
	for k, v := range d.readsBy {
		m[k] = v
	}
	return d.reads, m
}

// ResetReads zeroes the read counters.
func (d *DS) ResetReads() {
	d.mu.Lock()
	defer d.mu.Unlock()
	d.reads = 0
	d.readsBy = make(map[string]int)
}

// SetFailWrite installs a write-fault predicate under the lock.
func (d *DS) SetFailWrite(f func(attempt int, u Unit) bool) {
	d.mu.Lock()
	d.FailWrite = f
	d.mu.Unlock()
}

// SetFailRead installs a read-fault predicate under the lock.
func (d *DS) SetFailRead(f func(key string) bool) {
	d.mu.Lock()
	d.FailRead = f
	d.mu.Unlock()
}
