// Package simnet builds libp2p mocknet worlds that run inside a synctest bubble: hosts whose streams
// honour deadlines in virtual time, links with latency, and scripted peers that speak the header
// exchange wire protocol directly (and lie).
package simnet

import (
	"context"
	"encoding/binary"
	"errors"
	"sync"
	"time"

	"github.com/celestiaorg/go-libp2p-messenger/serde"
	"github.com/libp2p/go-libp2p/core/host"
	"github.com/libp2p/go-libp2p/core/network"
	"github.com/libp2p/go-libp2p/core/peer"
	"github.com/libp2p/go-libp2p/core/protocol"
	mocknet "github.com/libp2p/go-libp2p/p2p/net/mock"

	p2p_pb "github.com/celestiaorg/go-header/p2p/pb"
)

// NetworkID used by all worlds; the exchange protocol id derives from it.
const NetworkID = "vn"

// ProtocolID is the header exchange protocol id for NetworkID.
const ProtocolID = protocol.ID("/" + NetworkID + "/header-ex/v0.0.3")

// World is one mocknet.
type World struct {
	Net     mocknet.Mocknet
	Hosts   []host.Host // wrapped hosts (working deadlines)
	Closing chan struct{}
	once    sync.Once
	hmu     sync.Mutex
	active  int
	closed  bool
	idle    chan struct{}
}

// enter registers a running scripted handler; false once the world is closing.
func (w *World) enter() bool {
	w.hmu.Lock()
	defer w.hmu.Unlock()
	if w.closed {
		return false
	}
	w.active++
	return true
}

func (w *World) leave() {
	w.hmu.Lock()
	w.active--
	if w.closed && w.active == 0 && w.idle != nil {
		close(w.idle)
		w.idle = nil
	}
	w.hmu.Unlock()
}

// New creates n fully linked hosts with the given link latency. Peers are NOT connected yet.
func New(n int, latency time.Duration) (*World, error) {
	mn := mocknet.New()
	w := &World{Net: mn, Closing: make(chan struct{})}
	for i := 0; i < n; i++ {
		h, err := mn.GenPeer()
		if err != nil {
			return nil, err
		}
		w.Hosts = append(w.Hosts, &dlHost{Host: h, w: w})
	}
	mn.SetLinkDefaults(mocknet.LinkOptions{Latency: latency})
	if err := mn.LinkAll(); err != nil {
		return nil, err
	}
	return w, nil
}

// Connect connects host i to host j.
func (w *World) Connect(i, j int) error {
	_, err := w.Net.ConnectPeers(w.Hosts[i].ID(), w.Hosts[j].ID())
	return err
}

// Close releases hanging scripted peers and tears the network down.
func (w *World) Close() {
	w.once.Do(func() {
		close(w.Closing)
		w.hmu.Lock()
		w.closed = true
		var idle chan struct{}
		if w.active > 0 {
			idle = make(chan struct{})
			w.idle = idle
		}
		w.hmu.Unlock()
		if idle != nil {
			<-idle
		}
		_ = w.Net.Close()
	})
}

// ---- deadline capable host/stream wrappers (mocknet's SetDeadline is a no-op) ----

type dlHost struct {
	host.Host
	w *World
}

func (h *dlHost) NewStream(ctx context.Context, p peer.ID, pids ...protocol.ID) (network.Stream, error) {
	s, err := h.Host.NewStream(ctx, p, pids...)
	if err != nil {
		return nil, err
	}
	return &dlStream{Stream: s}, nil
}

// inboundDelay models transfer/processing time of an inbound stream. mocknet flushes buffered writes
// immediately when a stream is closed, i.e. request/response round trips would otherwise take no
// virtual time at all and a client retry loop would spin forever at one virtual instant.
const inboundDelay = time.Millisecond

func (h *dlHost) SetStreamHandler(pid protocol.ID, handler network.StreamHandler) {
	h.Host.SetStreamHandler(pid, func(s network.Stream) {
		time.Sleep(inboundDelay)
		handler(&dlStream{Stream: s})
	})
}

func (h *dlHost) SetStreamHandlerMatch(pid protocol.ID, m func(protocol.ID) bool, handler network.StreamHandler) {
	h.Host.SetStreamHandlerMatch(pid, m, func(s network.Stream) { handler(&dlStream{Stream: s}) })
}

type dlStream struct {
	network.Stream
	mu               sync.Mutex
	rt, wt           *time.Timer
	reading, writing int  // calls currently blocked in Read / Write
	rExp, wExp       bool // deadline passed while no call was blocked: the next call fails
}

var errDeadline = errors.New("simnet: i/o deadline exceeded")

// arm sets (or clears) a deadline. What a real transport's deadline does: a read (write) blocked when it expires
// fails - the stream is reset, which is also what the peer sees - and later reads (writes) fail at once; a stream
// that is merely idle is left alone.
func (s *dlStream) arm(tp **time.Timer, exp *bool, busy func() bool, t time.Time) {
	s.mu.Lock()
	defer s.mu.Unlock()
	if *tp != nil {
		(*tp).Stop()
		*tp = nil
	}
	*exp = false
	if t.IsZero() {
		return
	}
	d := time.Until(t)
	if d < 0 {
		d = 0
	}
	*tp = time.AfterFunc(d, func() {
		s.mu.Lock()
		blocked := busy()
		if !blocked {
			*exp = true
		}
		s.mu.Unlock()
		if blocked {
			_ = s.Stream.Reset()
		}
	})
}

func (s *dlStream) SetDeadline(t time.Time) error {
	s.arm(&s.rt, &s.rExp, func() bool { return s.reading > 0 }, t)
	s.arm(&s.wt, &s.wExp, func() bool { return s.writing > 0 }, t)
	return nil
}
func (s *dlStream) SetReadDeadline(t time.Time) error {
	s.arm(&s.rt, &s.rExp, func() bool { return s.reading > 0 }, t)
	return nil
}
func (s *dlStream) SetWriteDeadline(t time.Time) error {
	s.arm(&s.wt, &s.wExp, func() bool { return s.writing > 0 }, t)
	return nil
}

func (s *dlStream) Read(p []byte) (int, error) {
	s.mu.Lock()
	if s.rExp {
		s.mu.Unlock()
		_ = s.Stream.Reset()
		return 0, errDeadline
	}
	s.reading++
	s.mu.Unlock()
	n, err := s.Stream.Read(p)
	s.mu.Lock()
	s.reading--
	s.mu.Unlock()
	return n, err
}

func (s *dlStream) Write(p []byte) (int, error) {
	s.mu.Lock()
	if s.wExp {
		s.mu.Unlock()
		_ = s.Stream.Reset()
		return 0, errDeadline
	}
	s.writing++
	s.mu.Unlock()
	n, err := s.Stream.Write(p)
	s.mu.Lock()
	s.writing--
	s.mu.Unlock()
	return n, err
}

func (s *dlStream) disarm() {
	s.mu.Lock()
	for _, tp := range []**time.Timer{&s.rt, &s.wt} {
		if *tp != nil {
			(*tp).Stop()
			*tp = nil
		}
	}
	s.mu.Unlock()
}

func (s *dlStream) Close() error { s.disarm(); return s.Stream.Close() }
func (s *dlStream) Reset() error { s.disarm(); return s.Stream.Reset() }

// ---- scripted peers ----

// Request is one request a scripted peer received.
type Request struct {
	Peer   int
	From   peer.ID
	Origin uint64
	Hash   []byte
	IsHash bool
	Amount uint64
	At     time.Duration
	Seq    int
}

// Reply tells the scripted peer what to do with a request.
type Reply struct {
	Delay     time.Duration            // wait before answering (virtual)
	Hang      bool                     // never answer (until the world closes or the stream dies)
	Reset     bool                     // reset the stream instead of answering
	Responses []*p2p_pb.HeaderResponse // frames to send
	Raw       []byte                   // raw bytes to send instead of / after the frames
	NoClose   bool                     // leave the stream open after writing (client must time out)
}

// Script decides the reply of peer `idx` to its n-th request.
type Script func(req Request) Reply

// Peer is a scripted peer.
type Peer struct {
	w    *World
	idx  int
	mu   sync.Mutex
	reqs []Request
	t0   time.Time
	seq  int
}

// ScriptPeer installs a scripted handler on host idx.
func (w *World) ScriptPeer(idx int, script Script) *Peer {
	p := &Peer{w: w, idx: idx, t0: time.Now()}
	w.Hosts[idx].SetStreamHandler(ProtocolID, func(s network.Stream) {
		if !w.enter() {
			_ = s.Reset()
			return
		}
		defer w.leave()
		req := new(p2p_pb.HeaderRequest)
		if _, err := serde.Read(s, req); err != nil {
			_ = s.Reset()
			return
		}
		r := Request{Peer: idx, From: s.Conn().RemotePeer(), Amount: req.Amount, At: time.Since(p.t0)}
		switch d := req.Data.(type) {
		case *p2p_pb.HeaderRequest_Origin:
			r.Origin = d.Origin
		case *p2p_pb.HeaderRequest_Hash:
			r.Hash, r.IsHash = d.Hash, true
		}
		p.mu.Lock()
		r.Seq = p.seq
		p.seq++
		p.reqs = append(p.reqs, r)
		p.mu.Unlock()
		rep := script(r)
		if rep.Delay > 0 {
			select {
			case <-time.After(rep.Delay):
			case <-w.Closing:
				_ = s.Reset()
				return
			}
		}
		if rep.Hang {
			<-w.Closing
			_ = s.Reset()
			return
		}
		if rep.Reset {
			_ = s.Reset()
			return
		}
		for _, resp := range rep.Responses {
			if _, err := serde.Write(s, resp); err != nil {
				_ = s.Reset()
				return
			}
		}
		if len(rep.Raw) > 0 {
			if _, err := s.Write(rep.Raw); err != nil {
				_ = s.Reset()
				return
			}
		}
		if rep.NoClose {
			<-w.Closing
			_ = s.Reset()
			return
		}
		_ = s.Close()
	})
	return p
}

// Requests returns the requests received so far.
func (p *Peer) Requests() []Request {
	p.mu.Lock()
	defer p.mu.Unlock()
	return append([]Request(nil), p.reqs...)
}

// OK builds an OK response frame with the given body.
func OK(body []byte) *p2p_pb.HeaderResponse {
	return &p2p_pb.HeaderResponse{Body: body, StatusCode: p2p_pb.StatusCode_OK}
}

// NotFound builds the NOT_FOUND frame.
func NotFound() *p2p_pb.HeaderResponse {
	return &p2p_pb.HeaderResponse{StatusCode: p2p_pb.StatusCode_NOT_FOUND}
}

// Status builds a frame with an arbitrary status code.
func Status(code int32, body []byte) *p2p_pb.HeaderResponse {
	return &p2p_pb.HeaderResponse{Body: body, StatusCode: p2p_pb.StatusCode(code)}
}

// Frame returns the delimited wire encoding of an arbitrary payload (uvarint length prefix + payload).
func Frame(payload []byte) []byte {
	buf := make([]byte, binary.MaxVarintLen64)
	n := binary.PutUvarint(buf, uint64(len(payload)))
	return append(buf[:n], payload...)
}

// LenPrefix returns only a uvarint length prefix announcing n bytes.
func LenPrefix(n uint64) []byte {
	buf := make([]byte, binary.MaxVarintLen64)
	return buf[:binary.PutUvarint(buf, n)]
}
